#!/bin/bash
# Builds the framework from files on disk only (offline): tools, generated protobuf, instrumented overlay, harness binary.
cd /verif || exit 2
mkdir -p .build evidence out
scripts/build.sh /verif/.build/setup || exit 2
echo "setup ok"
