#!/bin/bash
# Builds the framework from files on disk only (offline): tools, generated protobuf, instrumented overlay, harness binary.
V=$(cd "$(dirname "$0")" && pwd); export VERIF_ROOT=$V
cd "$V" || exit 2
mkdir -p .build evidence out
scripts/build.sh "$V/.build/setup" || exit 2
echo "setup ok"
