// Package sim is the repository-facing half of the simulator: running one case
// inside a synctest bubble under the seeded scheduler (verifsimrt), the worker
// loop used by the batch driver, the simulated disk and network.
package sim

import (
	"bufio"
	"encoding/json"
	"fmt"
	"io"
	"log/slog"
	"math/rand/v2"
	"os"
	"path/filepath"
	"runtime"
	"runtime/debug"
	"sort"
	"strconv"
	"strings"
	"sync"
	"sync/atomic"
	"testing"
	"testing/synctest"
	"time"

	simrt "reduction.dev/reduction/verifsimrt"
	"verif/simcore"
)

// Harness describes one way of assembling real repository code around the
// simulator.
type Harness struct {
	Name    string
	OneShot bool // one simulation per OS process (leaked tickers never let the bubble end)
	// Gen draws the case (configuration + workload) for a property and tier.
	Gen func(r *rand.Rand, prop, tier string) simcore.Case
	// Body runs as the main *task* (never on the scheduler goroutine).
	Body     func(c *Ctx)
	MaxSteps int
	Real     []string
	Stub     []string
}

// Ctx is handed to a harness body.
type Ctx struct {
	T    *testing.T
	S    *simrt.Sim
	H    *Harness
	Prop string
	Case simcore.Case

	mu        sync.Mutex
	violation string
	class     string
	finished  atomic.Bool
	probes    map[string]int
	faults    map[string]int
	state     string
	ops       int
	tags      map[string]bool
}

// AddTag records a fact about the run's history that the known-findings file
// can match on; tags are appended to the violation text.
func (c *Ctx) AddTag(tag string) {
	c.mu.Lock()
	if c.tags == nil {
		c.tags = map[string]bool{}
	}
	c.tags[tag] = true
	c.mu.Unlock()
}

// Violate records the first violation of the run. class is the diagnosis
// ("C07/get-stale"); the text carries the discriminating facts.
func (c *Ctx) Violate(class, format string, a ...any) {
	c.mu.Lock()
	defer c.mu.Unlock()
	if c.violation != "" {
		return
	}
	c.class = class
	c.violation = class + " " + fmt.Sprintf(format, a...)
	simrt.Log("VIOLATION " + c.class)
}

func (c *Ctx) Violated() bool { c.mu.Lock(); defer c.mu.Unlock(); return c.violation != "" }

func (c *Ctx) Probe(name string)           { c.mu.Lock(); c.probes[name]++; c.mu.Unlock() }
func (c *Ctx) ProbeN(name string, n int)   { c.mu.Lock(); c.probes[name] += n; c.mu.Unlock() }
func (c *Ctx) Fault(name string)           { c.mu.Lock(); c.faults[name]++; c.mu.Unlock() }
func (c *Ctx) SetState(s string)           { c.mu.Lock(); c.state = s; c.mu.Unlock() }
func (c *Ctx) OpDone()                     { c.mu.Lock(); c.ops++; c.mu.Unlock() }
func (c *Ctx) Cfg(k string, d int64) int64 { return c.Case.Get(k, d) }

// Go starts a harness task. A panic inside it (repository code panicking on the
// task's stack) is recorded as a violation of class "<prop>/panic".
func (c *Ctx) Go(name string, f func()) {
	grp, ord := simrt.Group(), simrt.NextOrd()
	go func() {
		defer c.recoverTask(name)
		simrt.Start("task:"+name, grp, ord)
		f()
	}()
}

func (c *Ctx) recoverTask(name string) {
	if r := recover(); r != nil {
		c.Violate(c.Prop+"/panic", "task %s panicked: %v @ %s", name, r, panicSite(debug.Stack()))
	}
}

// panicSite extracts the first repository frame below the panic from a stack.
func panicSite(stack []byte) string {
	lines := strings.Split(string(stack), "\n")
	seenPanic := false
	for i, l := range lines {
		if strings.HasPrefix(l, "panic(") {
			seenPanic = true
			continue
		}
		if seenPanic && strings.HasPrefix(l, "reduction.dev/reduction/") && !strings.Contains(l, "verifsimrt") {
			fn := l
			if j := strings.Index(fn, "("); j > 0 {
				fn = fn[:j]
			}
			loc := ""
			if i+1 < len(lines) {
				loc = strings.TrimSpace(lines[i+1])
				if j := strings.Index(loc, " +"); j > 0 {
					loc = loc[:j]
				}
				loc = filepath.Base(loc)
			}
			return strings.TrimPrefix(fn, "reduction.dev/reduction/") + " " + loc
		}
	}
	return "?"
}

func policyFromCase(cs simcore.Case) simrt.Policy {
	p := simrt.DefaultPolicy()
	p.TaskWeight = int(cs.Get("pol.tw", 16))
	switch cs.Get("pol.sticky", 1) {
	case 0:
		p.Budgets = []int{0}
	case 1:
		p.Budgets = []int{0, 0, 2, 8, 50}
	case 2:
		p.Budgets = []int{0, 20, 200, 2000}
	case 3:
		p.Budgets = []int{0, 1, 1, 3}
	}
	p.MaxBusyJump = time.Duration(cs.Get("pol.jump_us", 5000)) * time.Microsecond
	p.IdleHorizon = time.Duration(cs.Get("pol.idle_s", 7200)) * time.Second
	return p
}

// DrawPolicy adds scheduling-policy swarm parameters to a case.
func DrawPolicy(r *rand.Rand, cs *simcore.Case) {
	cs.Cfg["pol.tw"] = []int64{4, 16, 16, 64, 400}[r.IntN(5)]
	cs.Cfg["pol.sticky"] = int64(r.IntN(4))
	cs.Cfg["pol.jump_us"] = []int64{50, 1000, 5000, 53000, 1009000}[r.IntN(5)]
}

// CurrentRun is the run index of the simulation in progress (one-shot
// harnesses report from inside the bubble).
var CurrentRun int

var discardLogger = slog.New(slog.NewTextHandler(io.Discard, &slog.HandlerOptions{Level: slog.LevelError + 100}))

// Exec runs one case. replay == nil: schedule decisions come from PCG(seed).
func Exec(t *testing.T, h *Harness, prop string, cs simcore.Case, seed uint64, replay []int32, trace bool) (res *simcore.Result, choices []int32, tr []string) {
	res = &simcore.Result{Seed: seed}
	t0 := time.Now()
	var c *Ctx
	var s *simrt.Sim
	finish := func(outcome string) {
		res.Outcome = outcome
		res.Run = CurrentRun
		c.mu.Lock()
		res.Violation, res.Class = c.violation, c.class
		if p := s.Panicked(); p != "" && res.Violation == "" {
			res.Class = prop + "/panic"
			res.Violation = res.Class + " " + p
		}
		if res.Violation != "" && len(c.tags) > 0 {
			var ts []string
			for t := range c.tags {
				ts = append(ts, t)
			}
			sort.Strings(ts)
			res.Violation += " [history: " + strings.Join(ts, "; ") + "]"
		}
		res.Probes, res.Faults, res.State, res.Ops = c.probes, c.faults, c.state, c.ops
		c.mu.Unlock()
		res.LogHash, res.LogLen = s.LogHash(), s.LogLen()
		res.Steps, res.Switches, res.ClockJumps, res.SchedHash = s.Steps, s.Switches, s.ClockJumps, s.SchedHash
		res.SimTimeNs = int64(s.SimTime())
		choices = append([]int32(nil), s.Choices...)
		res.NChoices = len(choices)
		tr = s.Trace
	}
	func() {
		defer func() {
			if r := recover(); r != nil {
				msg := fmt.Sprint(r)
				if !strings.Contains(msg, "deadlock") {
					panic(r)
				}
			}
		}()
		synctest.Test(t, func(t *testing.T) {
			s = simrt.New(seed, replay, policyFromCase(cs), trace)
			c = &Ctx{T: t, S: s, H: h, Prop: prop, Case: cs, probes: map[string]int{}, faults: map[string]int{}}
			go func() {
				defer c.recoverTask("main")
				simrt.Yield("task:main")
				h.Body(c)
				c.finished.Store(true)
			}()
			maxSteps := h.MaxSteps
			if v := cs.Get("max_steps", 0); v > 0 {
				maxSteps = int(v)
			}
			if maxSteps == 0 {
				maxSteps = 200000
			}
			outcome := s.Run(func() bool { return c.finished.Load() || c.Violated() || s.Panicked() != "" }, maxSteps)
			finish(outcome)
			if outcome != "done" && os.Getenv("VERIF_DEBUG") != "" {
				buf := make([]byte, 4<<20)
				n := runtime.Stack(buf, true)
				fmt.Fprintf(os.Stderr, "=== outcome %s; parked: %s\n%s\n", outcome, s.ParkedLabels(), buf[:n])
			}
			s.Stop()
			if h.OneShot {
				if res.Violation != "" {
					// driver shrinks; hand over the raw schedule
					writeRaw(prop, h, cs, res, choices, tr)
				}
				emit(res)
				if f := os.Getenv("VERIF_TRACE"); f != "" && f != "1" {
					sfx := ".gen"
					if replay != nil {
						sfx = ".replay"
					}
					os.WriteFile(f+sfx, []byte(strings.Join(tr, "\n")), 0o644)
				}
				os.Stdout.Sync()
				os.Exit(0)
			}
		})
	}()
	simrt.Detach()
	res.WallUs = time.Since(t0).Microseconds() // real clock: measured outside the bubble
	return
}

var outMu sync.Mutex
var outW = bufio.NewWriter(os.Stdout)

func emit(res *simcore.Result) {
	b, _ := json.Marshal(res)
	outMu.Lock()
	outW.WriteString("R ")
	outW.Write(b)
	outW.WriteString("\n")
	outW.Flush()
	outMu.Unlock()
}

func outDir(prop string) string {
	d := os.Getenv("VERIF_OUT")
	if d == "" {
		d = "/verif/out"
	}
	d = filepath.Join(d, prop)
	os.MkdirAll(d, 0o755)
	return d
}

func writeRaw(prop string, h *Harness, cs simcore.Case, res *simcore.Result, choices []int32, tr []string) string {
	rf := &simcore.ReplayFile{Property: prop, Harness: h.Name, Seed: res.Seed, Run: res.Run, Case: cs, Choices: choices, Class: res.Class, Violation: res.Violation, LogHash: res.LogHash}
	rf.Original.Ops, rf.Original.Choices = len(cs.Ops), len(choices)
	if len(tr) > 600 {
		tr = tr[len(tr)-600:]
	}
	rf.Trace = tr
	p := filepath.Join(outDir(prop), fmt.Sprintf("replay-%d-%d.json", res.Seed, res.Run))
	if err := rf.Write(p); err != nil {
		fmt.Fprintln(os.Stderr, "write replay:", err)
		os.Exit(2)
	}
	res.Replay = p
	return p
}

// RunSeed mixes the batch seed and the run index into the per-run seed.
func RunSeed(base uint64, run int) uint64 {
	x := base*0x9E3779B97F4A7C15 + uint64(run)*0xBF58476D1CE4E5B9 + 0x94D049BB133111EB
	x ^= x >> 30
	x *= 0xBF58476D1CE4E5B9
	x ^= x >> 27
	x *= 0x94D049BB133111EB
	x ^= x >> 31
	return x
}

func envInt(k string, d int) int {
	if v, err := strconv.Atoi(os.Getenv(k)); err == nil {
		return v
	}
	return d
}

// Worker is the entry point of every harness test binary. Environment:
//
//	VERIF_PROP, VERIF_TIER, VERIF_SEED (batch seed), VERIF_FROM, VERIF_TO (run indices)
//	VERIF_MODE = batch | replay | shrink ; VERIF_REPLAY = path
//	VERIF_SHRINK_MAX = how many violations of this worker may be minimised
func Worker(t *testing.T, hs map[string]*Harness, pick func(prop string) *Harness) {
	runtime.GOMAXPROCS(1)
	debug.SetGCPercent(400)
	debug.SetMemoryLimit(1 << 30)
	slog.SetDefault(discardLogger)
	prop := os.Getenv("VERIF_PROP")
	tier := os.Getenv("VERIF_TIER")
	if tier == "" {
		tier = "quick"
	}
	h := pick(prop)
	if name := os.Getenv("VERIF_HARNESS"); name != "" && hs[name] != nil {
		h = hs[name] // a property may be served by a second harness (extra pass of the driver)
	}
	if f := os.Getenv("VERIF_REPLAY"); f != "" {
		if rf, err := simcore.ReadReplay(f); err == nil && hs[rf.Harness] != nil {
			h = hs[rf.Harness]
		}
	}
	if h == nil {
		fmt.Fprintln(os.Stderr, "no harness for property", prop)
		os.Exit(2)
	}
	base, _ := strconv.ParseUint(os.Getenv("VERIF_SEED"), 10, 64)
	mode := os.Getenv("VERIF_MODE")
	watchdog := time.Duration(envInt("VERIF_WATCHDOG_S", 120)) * time.Second
	var runStart atomic.Int64
	var curRun atomic.Int64
	wallLimit := time.Duration(envInt("VERIF_WALL_LIMIT_S", 600)) * time.Second
	go func() { // real-time watchdog, outside any bubble
		lastRun, lastSteps, lastChange := int64(-1), -1, time.Now()
		for {
			time.Sleep(time.Second)
			st := runStart.Load()
			if st == 0 {
				continue
			}
			// progress = the scheduler takes decisions (unsynchronised read: a watchdog only)
			steps := -1
			if s := simrt.Current(); s != nil {
				steps = s.Steps
			}
			if r := curRun.Load(); r != lastRun || steps != lastSteps {
				lastRun, lastSteps, lastChange = r, steps, time.Now()
			}
			switch {
			case time.Since(lastChange) > watchdog:
				// no scheduling decision for the whole period: the simulator itself is stuck
				lbl := ""
				if s := simrt.Current(); s != nil {
					lbl = s.ParkedLabelsUnsafe()
				}
				fmt.Fprintf(os.Stderr, "WATCHDOG run=%d stuck for %v; parked: %s\n", curRun.Load(), watchdog, lbl)
				buf := make([]byte, 16<<20)
				n := runtime.Stack(buf, true)
				os.Stderr.Write(buf[:n])
				os.Exit(3)
			case time.Since(time.Unix(0, st)) > wallLimit:
				// progressing but too slow to wait for: inconclusive, like a step-capped run
				fmt.Fprintf(os.Stderr, "WALLLIMIT run=%d still running after %v (%d scheduling decisions)\n", curRun.Load(), wallLimit, steps)
				os.Exit(4)
			}
		}
	}()

	switch mode {
	case "replay", "shrink":
		rf, err := simcore.ReadReplay(os.Getenv("VERIF_REPLAY"))
		if err != nil {
			fmt.Fprintln(os.Stderr, err)
			os.Exit(2)
		}
		runStart.Store(time.Now().UnixNano())
		CurrentRun = rf.Run
		if mode == "replay" {
			ch := rf.Choices
			if ch == nil && rf.LogHash != 0 {
				ch = []int32{}
			}
			// a seed-only file (engine crash: the schedule died with the process) re-runs in generate mode
			res, _, tr := Exec(t, h, prop, rf.Case, rf.Seed, ch, os.Getenv("VERIF_TRACE") != "")
			res.Run = rf.Run
			emit(res)
			if os.Getenv("VERIF_TRACE") != "" {
				for _, l := range tr {
					fmt.Println("T", l)
				}
			}
			return
		}
		min := shrinkInProcess(t, h, prop, rf, envInt("VERIF_SHRINK_EVALS", 400), &runStart)
		min.Write(os.Getenv("VERIF_REPLAY"))
		return
	}

	from, to := envInt("VERIF_FROM", 0), envInt("VERIF_TO", 1)
	shrinkLeft := envInt("VERIF_SHRINK_MAX", 2)
	seenClass := map[string]bool{}
	for run := from; run < to; run++ {
		seed := RunSeed(base, run)
		r := rand.New(rand.NewPCG(seed, 0xca5e))
		cs := h.Gen(r, prop, tier)
		if ov := os.Getenv("VERIF_CFG"); ov != "" { // debugging aid: k=v,k=v overrides of the generated configuration
			for _, kv := range strings.Split(ov, ",") {
				if k, v, ok := strings.Cut(kv, "="); ok {
					if n, err := strconv.ParseInt(v, 10, 64); err == nil {
						cs.Cfg[k] = n
					}
				}
			}
		}
		if mode == "gen" {
			b, _ := json.Marshal(cs)
			fmt.Println(string(b))
			continue
		}
		curRun.Store(int64(run))
		CurrentRun = run
		runStart.Store(time.Now().UnixNano())
		fmt.Fprintf(os.Stderr, "RUNSTART %d\n", run)
		res, choices, tr := Exec(t, h, prop, cs, seed, nil, os.Getenv("VERIF_TRACE") != "")
		res.Run = run
		if f := os.Getenv("VERIF_TRACE"); f != "" {
			os.WriteFile(f+".gen", []byte(strings.Join(tr, "\n")), 0o644)
		}
		if res.Violation != "" {
			// determinism: the recorded schedule must reproduce the same violation and log
			res2, _, tr2 := Exec(t, h, prop, cs, seed, nonNil(choices), true)
			if res2.Class != res.Class || res2.LogHash != res.LogHash {
				res.Note = fmt.Sprintf("NONDETERMINISTIC replay: class %q vs %q, log %x vs %x", res.Class, res2.Class, res.LogHash, res2.LogHash)
			}
			if f := os.Getenv("VERIF_TRACE"); f != "" {
				os.WriteFile(f+".replay", []byte(strings.Join(tr2, "\n")), 0o644)
			}
			tr = tr2
			p := writeRaw(prop, h, cs, res, choices, tr)
			if res.Note == "" && shrinkLeft > 0 && !seenClass[res.Class] {
				seenClass[res.Class] = true
				shrinkLeft--
				rf, _ := simcore.ReadReplay(p)
				min := shrinkInProcess(t, h, prop, rf, envInt("VERIF_SHRINK_EVALS", 400), &runStart)
				min.Write(p)
			}
		}
		runStart.Store(0)
		emit(res)
	}
}

func nonNil(c []int32) []int32 {
	if c == nil {
		return []int32{}
	}
	return c
}

func shrinkInProcess(t *testing.T, h *Harness, prop string, rf *simcore.ReplayFile, maxEvals int, runStart *atomic.Int64) *simcore.ReplayFile {
	eval := func(c simcore.Candidate) (bool, []int32) {
		runStart.Store(time.Now().UnixNano())
		res, used, _ := Exec(t, h, prop, c.Case, rf.Seed, nonNil(c.Choices), false)
		return res.Class == rf.Class, used
	}
	if rf.Choices == nil && rf.LogHash == 0 {
		// seed-only file (the process died): first recover the schedule in generate mode
		res, used, _ := Exec(t, h, prop, rf.Case, rf.Seed, nil, false)
		if res.Class != rf.Class {
			return rf
		}
		rf.Choices, rf.LogHash, rf.Violation = used, res.LogHash, res.Violation
		rf.Original.Choices = len(used)
	}
	best, evals := simcore.Shrink(simcore.Candidate{Case: rf.Case, Choices: rf.Choices}, eval, maxEvals)
	runStart.Store(time.Now().UnixNano())
	res, used, tr := Exec(t, h, prop, best.Case, rf.Seed, nonNil(best.Choices), true)
	out := *rf
	if res.Class != rf.Class {
		// should not happen (eval accepted it); keep the original
		return rf
	}
	for len(used) > 0 && used[len(used)-1] == 0 {
		used = used[:len(used)-1]
	}
	out.Case, out.Choices, out.Violation, out.LogHash, out.Minimised = best.Case, used, res.Violation, res.LogHash, true
	if len(tr) > 600 {
		tr = tr[len(tr)-600:]
	}
	out.Trace = tr
	_ = evals
	return &out
}
