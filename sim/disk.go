package sim

import (
	"bytes"
	"fmt"
	"io"
	"iter"
	"path"
	"sort"
	"strings"
	"sync"
	"time"

	"reduction.dev/reduction/dkv/storage"
	"reduction.dev/reduction/storage/locations"
	simrt "reduction.dev/reduction/verifsimrt"
)

// Disk is the simulated storage device: one map of published files seen
// through two adapters, storage.FileSystem (DKV) and locations.StorageLocation
// (job snapshots, savepoints). It models the publish atomicity and listing
// order of the real back ends (LocalFilesystem: tmp + fsync + rename on Save;
// LocalDirectory / S3: whole-object writes), not their system calls. URIs are
// absolute paths, as with the local back ends.
type Disk struct {
	mu    sync.Mutex // real mutex: bookkeeping only, never held across a yield
	c     *Ctx
	files map[string][]byte
	dead  map[string]bool
	seq   int

	// Fault configuration (per-run): kind -> N means "1 in N operations of that
	// kind fails", 0 = never. Decisions are drawn from the choice stream.
	FaultRate map[string]int
	Full      bool // disk full: every publish fails

	IOLog        []IOEvent
	MissingReads []string
	DeletedBy    map[string]string
	WrittenBy    map[string]string
	Overwrites   []string // immutable-by-design files (.sst/.wal) whose content was replaced

	// Oracle hooks, called synchronously (no yields inside) when a file becomes
	// visible / disappears.
	OnPublish  func(node, path string, data []byte)
	OnRemove   func(node, path string, data []byte)
	pendingDel []pendingDelete

	// Slow publication (fault kind "stall-write", rate FaultRate["stall-write"]): a write of a
	// file whose name ends in StallSuffix blocks, in simulated time, until ReleaseStalls is
	// called (the harness calls it at a moment it wants the write to land in, e.g. while the
	// next deployment is under way) or StallMax has passed.
	StallSuffix string
	StallMax    time.Duration
	stallCh     chan struct{}
}

type IOEvent struct {
	Seq  int
	Node string
	Op   string
	Path string
}

type pendingDelete struct{ path, by string }

func NewDisk(c *Ctx) *Disk {
	return &Disk{c: c, files: map[string][]byte{}, dead: map[string]bool{}, FaultRate: map[string]int{}, DeletedBy: map[string]string{}, WrittenBy: map[string]string{}}
}

func (d *Disk) logIO(node, op, p string) {
	d.mu.Lock()
	d.seq++
	if len(d.IOLog) < 20000 {
		d.IOLog = append(d.IOLog, IOEvent{d.seq, node, op, p})
	}
	d.mu.Unlock()
	simrt.Log("io " + node + " " + op + " " + p)
}

// gate is the entry of every simulated I/O operation: fence for crashed nodes,
// then a scheduling point.
func (d *Disk) gate(node, op, p string) {
	d.mu.Lock()
	dead := d.dead[node]
	d.mu.Unlock()
	if dead {
		simrt.ParkForever("io:" + node)
	}
	if op == "write" && d.StallSuffix != "" && strings.HasSuffix(p, d.StallSuffix) && d.fault("stall-write") {
		d.mu.Lock()
		if d.stallCh == nil {
			d.stallCh = make(chan struct{})
		}
		ch := d.stallCh
		d.mu.Unlock()
		simrt.Select("io.stall:"+path.Base(p), false, simrt.RecvCase[struct{}](ch), simrt.RecvCase(time.After(d.StallMax)))
	}
	simrt.Yield("io." + op + ":" + path.Base(p))
	d.mu.Lock()
	dead = d.dead[node]
	d.mu.Unlock()
	if dead {
		simrt.ParkForever("io:" + node)
	}
}

func (d *Disk) fault(kind string) bool {
	n := d.FaultRate[kind]
	if n <= 0 || !simrt.InBubble() {
		return false
	}
	if simrt.Choose(n, "fault:"+kind) == n-1 {
		d.c.Fault(kind)
		return true
	}
	return false
}

// ReleaseStalls lets every stalled write proceed.
func (d *Disk) ReleaseStalls() {
	d.mu.Lock()
	if d.stallCh != nil {
		close(d.stallCh)
		d.stallCh = nil
	}
	d.mu.Unlock()
}

// Kill fences a node: all its later storage calls block for ever (its
// unpublished write buffers are thereby lost).
func (d *Disk) Kill(node string) { d.mu.Lock(); d.dead[node] = true; d.mu.Unlock() }

func (d *Disk) publish(node, p string, data []byte) {
	d.mu.Lock()
	if old, ok := d.files[p]; ok && !bytes.Equal(old, data) && (strings.HasSuffix(p, ".sst") || strings.HasSuffix(p, ".wal")) {
		d.Overwrites = append(d.Overwrites, fmt.Sprintf("%s: written by %s, replaced by %s (seq %d)", p, d.WrittenBy[p], node, d.seq))
		simrt.Log("io " + node + " OVERWRITE " + p)
	}
	d.files[p] = data
	d.WrittenBy[p] = node
	delete(d.DeletedBy, p)
	hook := d.OnPublish
	d.mu.Unlock()
	if hook != nil {
		hook(node, p, data)
	}
}

// PublishRaw places a file without going through the system (harness set-up).
func (d *Disk) PublishRaw(node, p string, data []byte) { d.publish(node, p, data) }

func (d *Disk) remove(p, by string) bool {
	d.mu.Lock()
	data, ok := d.files[p]
	delete(d.files, p)
	if ok {
		d.DeletedBy[p] = by
	}
	hook := d.OnRemove
	d.mu.Unlock()
	if ok && hook != nil {
		hook(by, p, data)
	}
	return ok
}

func (d *Disk) get(p string) ([]byte, bool) {
	d.mu.Lock()
	b, ok := d.files[p]
	d.mu.Unlock()
	return b, ok
}

// --- harness-side accessors (no yields, no faults, not part of the system) ---

func (d *Disk) Exists(p string) bool            { _, ok := d.get(p); return ok }
func (d *Disk) ReadRaw(p string) ([]byte, bool) { return d.get(p) }
func (d *Disk) Paths() []string {
	d.mu.Lock()
	defer d.mu.Unlock()
	ps := make([]string, 0, len(d.files))
	for p := range d.files {
		ps = append(ps, p)
	}
	sort.Strings(ps)
	return ps
}
func (d *Disk) Snapshot() map[string][]byte {
	d.mu.Lock()
	defer d.mu.Unlock()
	m := make(map[string][]byte, len(d.files))
	for k, v := range d.files {
		m[k] = v
	}
	return m
}
func (d *Disk) RemoveWhere(pred func(p string) bool, by string) {
	d.mu.Lock()
	for p := range d.files {
		if pred(p) {
			delete(d.files, p)
			d.DeletedBy[p] = by
		}
	}
	d.mu.Unlock()
}
func (d *Disk) WhoWrote(p string) string   { d.mu.Lock(); defer d.mu.Unlock(); return d.WrittenBy[p] }
func (d *Disk) WhoDeleted(p string) string { d.mu.Lock(); defer d.mu.Unlock(); return d.DeletedBy[p] }

// ApplyPendingDeletes applies, in sorted order, the deletions that
// runtime.AddCleanup callbacks requested from outside the bubble. Called by the
// harness's GC step, so the moment a file disappears is a recorded decision.
func (d *Disk) ApplyPendingDeletes() int {
	d.mu.Lock()
	pd := d.pendingDel
	d.pendingDel = nil
	d.mu.Unlock()
	sort.Slice(pd, func(i, j int) bool { return pd[i].path < pd[j].path })
	for _, x := range pd {
		d.mu.Lock()
		dead := d.dead[strings.SplitN(x.by, ":", 2)[0]]
		d.mu.Unlock()
		if dead {
			continue // a crashed process deletes nothing
		}
		if d.remove(x.path, x.by) {
			simrt.Log("io gc delete " + x.path)
		}
	}
	return len(pd)
}

func (d *Disk) PendingDeletes() int { d.mu.Lock(); defer d.mu.Unlock(); return len(d.pendingDel) }

// ---------------------------------------------------------------------------
// storage.FileSystem view

type FS struct {
	d    *Disk
	node string
	dir  string
}

func (d *Disk) FS(node, dir string) *FS { return &FS{d: d, node: node, dir: cleanAbs("/", dir)} }

func cleanAbs(base, p string) string {
	if i := strings.Index(p, "://"); i >= 0 {
		p = p[i+3:]
		if !strings.HasPrefix(p, "/") {
			p = "/" + p
		}
	}
	if path.IsAbs(p) {
		return path.Clean(p)
	}
	return path.Join(base, p)
}

func (fs *FS) New(p string) storage.File {
	return &File{fs: fs, path: cleanAbs(fs.dir, p), write: true}
}
func (fs *FS) Open(p string) storage.File {
	return &File{fs: fs, path: cleanAbs(fs.dir, p)}
}
func (fs *FS) Copy(source, destination string) error {
	src, dst := cleanAbs(fs.dir, source), cleanAbs(fs.dir, destination)
	fs.d.gate(fs.node, "copy", dst)
	b, ok := fs.d.get(src)
	if !ok {
		return fmt.Errorf("copy: missing source file %s: %w", src, storage.ErrNotFound)
	}
	if fs.d.Full || fs.d.fault("copy-error") {
		return fmt.Errorf("simdisk: injected copy error for %s", dst)
	}
	fs.d.publish(fs.node, dst, b)
	fs.d.logIO(fs.node, "copy", dst)
	return nil
}

var _ storage.FileSystem = (*FS)(nil)

type File struct {
	fs     *FS
	path   string
	write  bool
	buf    bytes.Buffer
	size   int64
	loaded bool
	data   []byte
}

func (f *File) Write(p []byte) (int, error) {
	if !f.write {
		panic("simdisk: write to a read-only file " + f.path)
	}
	n, _ := f.buf.Write(p)
	f.size += int64(n)
	return n, nil
}

func (f *File) Save() error {
	if !f.write {
		panic("simdisk: save of a read-only file " + f.path)
	}
	d := f.fs.d
	d.gate(f.fs.node, "save", f.path)
	if d.Full || d.fault("save-error") {
		d.logIO(f.fs.node, "save-failed", f.path)
		return fmt.Errorf("simdisk: injected save error for %s", f.path)
	}
	data := append([]byte(nil), f.buf.Bytes()...)
	d.publish(f.fs.node, f.path, data)
	d.logIO(f.fs.node, "save", f.path)
	f.write = false
	f.loaded, f.data = true, data
	return nil
}

func (f *File) ReadAt(p []byte, off int64) (int, error) {
	if f.write {
		panic("simdisk: read from a write-only file " + f.path)
	}
	if !f.loaded {
		d := f.fs.d
		if simrt.InBubble() {
			d.gate(f.fs.node, "open", f.path)
			if d.fault("read-error") {
				return 0, fmt.Errorf("simdisk: injected read error for %s", f.path)
			}
		}
		b, ok := d.get(f.path)
		if !ok {
			d.mu.Lock()
			d.MissingReads = append(d.MissingReads, f.path)
			d.mu.Unlock()
			simrt.Log("io " + f.fs.node + " open-missing " + f.path)
			return 0, fmt.Errorf("simdisk: no file %s: %w", f.path, storage.ErrNotFound)
		}
		// like an open file descriptor: later deletion or replacement of the
		// path does not change what this handle reads
		f.loaded, f.data = true, b
	}
	if off >= int64(len(f.data)) {
		return 0, io.EOF
	}
	n := copy(p, f.data[off:])
	if n < len(p) {
		return n, io.EOF
	}
	return n, nil
}

func (f *File) Delete() error {
	if f.write {
		panic("simdisk: delete of a file being written " + f.path)
	}
	d := f.fs.d
	d.gate(f.fs.node, "delete", f.path)
	d.remove(f.path, f.fs.node+":Delete")
	d.logIO(f.fs.node, "delete", f.path)
	return nil
}

func (f *File) Name() string { return path.Base(f.path) }
func (f *File) URI() string  { return f.path }
func (f *File) Size() int64  { return f.size }

func (f *File) CreateDeleteFunc() func() error {
	d, p, node := f.fs.d, f.path, f.fs.node
	return func() error {
		if simrt.InBubble() {
			d.gate(node, "delete", p)
			d.remove(p, node+":cleanup")
			d.logIO(node, "delete", p)
			return nil
		}
		// runtime.AddCleanup goroutine (outside the bubble): only enqueue
		d.mu.Lock()
		d.pendingDel = append(d.pendingDel, pendingDelete{p, node + ":gc-cleanup"})
		d.mu.Unlock()
		return nil
	}
}

var _ storage.File = (*File)(nil)

// ---------------------------------------------------------------------------
// locations.StorageLocation view

type Loc struct {
	d    *Disk
	node string
	root string
}

func (d *Disk) Loc(node, root string) *Loc { return &Loc{d: d, node: node, root: cleanAbs("/", root)} }

func (l *Loc) Write(p string, data io.Reader) (string, error) {
	full := cleanAbs(l.root, p)
	b, err := io.ReadAll(data)
	if err != nil {
		return "", err
	}
	l.d.gate(l.node, "write", full)
	if l.d.Full || l.d.fault("write-error") {
		l.d.logIO(l.node, "write-failed", full)
		return "", fmt.Errorf("simdisk: injected write error for %s", full)
	}
	l.d.publish(l.node, full, b)
	l.d.logIO(l.node, "write", full)
	return full, nil
}

func (l *Loc) Read(p string) ([]byte, error) {
	full := cleanAbs(l.root, p)
	l.d.gate(l.node, "read", full)
	if l.d.fault("read-error") {
		return nil, fmt.Errorf("simdisk: injected read error for %s", full)
	}
	b, ok := l.d.get(full)
	if !ok {
		l.d.mu.Lock()
		l.d.MissingReads = append(l.d.MissingReads, full)
		l.d.mu.Unlock()
		return nil, locations.ErrNotFound
	}
	return append([]byte(nil), b...), nil
}

// List yields file paths in filepath.WalkDir order (per directory, entries
// sorted by name; a directory's content before its next sibling).
func (l *Loc) List() iter.Seq2[string, error] {
	l.d.gate(l.node, "list", l.root)
	all := l.d.Paths()
	prefix := l.root
	if !strings.HasSuffix(prefix, "/") {
		prefix += "/"
	}
	var rel []string
	for _, p := range all {
		if strings.HasPrefix(p, prefix) {
			rel = append(rel, strings.TrimPrefix(p, prefix))
		}
	}
	sort.Slice(rel, func(i, j int) bool { return walkLess(rel[i], rel[j]) })
	return func(yield func(string, error) bool) {
		for _, r := range rel {
			if !yield(prefix+r, nil) {
				return
			}
		}
	}
}

// walkLess orders two relative paths the way WalkDir visits them: compare
// component by component.
func walkLess(a, b string) bool {
	as, bs := strings.Split(a, "/"), strings.Split(b, "/")
	for i := 0; i < len(as) && i < len(bs); i++ {
		if as[i] != bs[i] {
			return as[i] < bs[i]
		}
	}
	return len(as) < len(bs)
}

func (l *Loc) URI(p string) (string, error) {
	full := l.root + "/" + p
	if !l.d.Exists(cleanAbs(l.root, p)) {
		return "", locations.ErrNotFound
	}
	return full, nil
}

func (l *Loc) Copy(sourceURI, destination string) error {
	src, dst := cleanAbs(l.root, sourceURI), cleanAbs(l.root, destination)
	l.d.gate(l.node, "copy", dst)
	b, ok := l.d.get(src)
	if !ok {
		l.d.mu.Lock()
		l.d.MissingReads = append(l.d.MissingReads, src)
		l.d.mu.Unlock()
		return locations.ErrNotFound
	}
	if l.d.Full || l.d.fault("copy-error") {
		return fmt.Errorf("simdisk: injected copy error for %s", dst)
	}
	l.d.publish(l.node, dst, b)
	l.d.logIO(l.node, "copy", dst)
	return nil
}

func (l *Loc) Remove(paths ...string) error {
	for _, p := range paths {
		full := cleanAbs(l.root, p)
		l.d.gate(l.node, "remove", full)
		l.d.remove(full, l.node+":Remove")
		l.d.logIO(l.node, "remove", full)
	}
	return nil
}

var _ locations.StorageLocation = (*Loc)(nil)
