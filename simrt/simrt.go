// Package verifsimrt is the runtime half of the deterministic simulator.
//
// It is injected into the repository build at import path
// reduction.dev/reduction/verifsimrt through `go build -overlay` (nothing is
// written into /repo). The build-time rewriter (tools/simrewrite) turns every
// channel send, select, Lock/RLock/Unlock and `go func` entry of the simulated
// packages into a call into this package, so that exactly one goroutine runs
// between two scheduling decisions and every decision comes from one recorded
// choice stream.
//
// Outside a synctest bubble, or when no simulation is active, every entry point
// degrades to the plain Go operation, so instrumented code keeps its meaning.
package verifsimrt

import (
	"fmt"
	"math/rand/v2"
	"reflect"
	"runtime"
	"sort"
	"strings"
	"sync"
	"testing/synctest"
	"time"
)

// ---------------------------------------------------------------------------
// Choice stream

// Policy parameters of one run (drawn by the harness from the seed, recorded in
// the replay file as part of the case configuration).
type Policy struct {
	// Weight of "release a task" relative to weight 1 of "advance the clock"
	// while tasks are enabled. 0 means never advance while something can run.
	TaskWeight int
	// Budgets[i] = number of consecutive yields the released task may pass
	// without parking again (sticky scheduling); the index is drawn per release.
	Budgets []int
	// Largest clock jump allowed while tasks are enabled.
	MaxBusyJump time.Duration
	// Total fake-time horizon after which an idle system is declared finished.
	IdleHorizon time.Duration
}

func DefaultPolicy() Policy {
	return Policy{TaskWeight: 16, Budgets: []int{0, 0, 2, 8, 50}, MaxBusyJump: 5 * time.Millisecond, IdleHorizon: 2 * time.Hour}
}

type task struct {
	gid     uint64
	label   string
	wake    chan struct{}
	mutex   bool
	epoch   uint64 // unlock epoch at park time (mutex waiters)
	forever bool
	group   string
	key     uint64 // scheduling order key: creation order stamp taken by the *creator* (deterministic), else goroutine id
}

type Sim struct {
	mu sync.Mutex // real mutex, held only for bookkeeping, never across a park

	rng        *rand.Rand
	replay     []int32
	replayMode bool
	Choices    []int32

	pol Policy

	parked      []*task
	lastGid     uint64
	budget      int
	unlockEpoch uint64
	stopped     bool
	idleWake    chan struct{} // non-nil while the scheduler waits in advanceUntilEvent

	hash   uint64
	nlog   int
	Trace  []string
	tracing bool

	// statistics
	Steps        int
	Switches     int
	ClockJumps   int
	InlineYields int
	SchedHash    uint64 // hash of the context-switch sequence only
	start        time.Time

	procLocals map[string]any
	ords       map[uint64]uint64 // goroutine id -> order stamp
	nextOrd    uint64
	groups    map[uint64]string // goroutine id -> node/group (inherited from the creating goroutine)
	deadGroup map[string]bool
	yieldHook func(label string) // optional observer (probes)
	panicked  string
}

var cur *Sim

// Current returns the active simulation or nil.
func Current() *Sim { return cur }

// New creates the simulation for one run. replay == nil: generate mode from
// seed. replay != nil: every decision is read from it (0 once exhausted).
func New(seed uint64, replay []int32, pol Policy, tracing bool) *Sim {
	s := &Sim{rng: rand.New(rand.NewPCG(seed, 0x5eed5eed5eed)), pol: pol, tracing: tracing, hash: 14695981039346656037, SchedHash: 14695981039346656037,
		groups: map[uint64]string{}, deadGroup: map[string]bool{}, ords: map[uint64]uint64{}}
	if replay != nil {
		s.replay = replay
		s.replayMode = true
	}
	if len(s.pol.Budgets) == 0 {
		s.pol.Budgets = []int{0}
	}
	s.start = time.Now()
	cur = s
	return s
}

func fnvAdd(h uint64, s string) uint64 {
	for i := 0; i < len(s); i++ {
		h ^= uint64(s[i])
		h *= 1099511628211
	}
	h ^= 0xff
	h *= 1099511628211
	return h
}

func (s *Sim) chooseLocked(n int) int {
	if n <= 1 {
		return 0
	}
	var v int
	if s.replayMode {
		if len(s.Choices) < len(s.replay) {
			v = int(s.replay[len(s.Choices)])
			if v < 0 {
				v = -v
			}
			v %= n
		}
	} else {
		v = s.rng.IntN(n)
	}
	s.Choices = append(s.Choices, int32(v))
	return v
}

// Choose draws one decision in [0,n) from the run's choice stream. Harness
// tasks use it for in-run decisions (fault or no fault, which option); 0 must
// always be the "simplest" outcome so that shrinking converges.
func Choose(n int, label string) int {
	s := cur
	if s == nil {
		return 0
	}
	s.mu.Lock()
	v := s.chooseLocked(n)
	s.logLocked("choose:" + label + "=" + itoa(v))
	s.mu.Unlock()
	return v
}

func itoa(v int) string { return fmt.Sprint(v) }

func (s *Sim) logLocked(ev string) {
	s.hash = fnvAdd(s.hash, ev)
	s.nlog++
	if s.tracing && len(s.Trace) < 200000 {
		s.Trace = append(s.Trace, ev)
	}
}

// Log appends an event to the run's event log (folded into the log hash that
// replay compares). It never draws from the PRNG and never reads a real clock.
func Log(ev string) {
	s := cur
	if s == nil {
		return
	}
	s.mu.Lock()
	s.logLocked(ev)
	s.mu.Unlock()
}

func Logf(f string, a ...any) {
	if cur == nil {
		return
	}
	Log(fmt.Sprintf(f, a...))
}

func (s *Sim) LogHash() uint64 { s.mu.Lock(); defer s.mu.Unlock(); return s.hash }
func (s *Sim) LogLen() int     { s.mu.Lock(); defer s.mu.Unlock(); return s.nlog }

// SimTime is the simulated time elapsed since the run started.
func (s *Sim) SimTime() time.Duration { return time.Since(s.start) }

// ---------------------------------------------------------------------------
// Parking

func goid() uint64 {
	var buf [40]byte
	n := runtime.Stack(buf[:], false)
	var id uint64
	for _, c := range buf[10:n] { // "goroutine 123 ["
		if c < '0' || c > '9' {
			break
		}
		id = id*10 + uint64(c-'0')
	}
	return id
}

// InBubble reports whether the calling goroutine runs on the fake clock of a
// synctest bubble (which starts at 2000-01-01). runtime.AddCleanup callbacks run
// outside and must not touch bubbled channels.
func InBubble() bool { return time.Now().Year() < 2005 }

func active() *Sim {
	s := cur
	if s == nil || !InBubble() {
		return nil
	}
	return s
}

func park(label string, mutex bool) {
	s := active()
	if s == nil {
		return
	}
	g := goid()
	s.mu.Lock()
	if s.stopped {
		// never fall back to free running: un-parked goroutines would block in
		// real mutexes held by parked ones and the bubble would never go idle
		s.mu.Unlock()
		select {}
	}
	if s.yieldHook != nil {
		s.yieldHook(label)
	}
	if !mutex && g == s.lastGid && s.budget > 0 && !(s.groups[g] != "" && s.deadGroup[s.groups[g]]) {
		s.budget--
		s.InlineYields++
		s.mu.Unlock()
		return
	}
	grp, known := s.groups[g]
	if !known {
		// first scheduling point of this goroutine: inherit the group of the
		// goroutine that created it ("created by ... in goroutine N")
		s.mu.Unlock()
		parent := creatorGid()
		s.mu.Lock()
		grp = s.groups[parent]
		s.groups[g] = grp
	}
	key, stamped := s.ords[g]
	if !stamped {
		key = 1<<40 + g // goroutines without a creator stamp: their ids are monotone in creation order among themselves
	}
	t := &task{gid: g, label: label, wake: make(chan struct{}), mutex: mutex, epoch: s.unlockEpoch, group: grp, key: key}
	s.parked = append(s.parked, t)
	if s.idleWake != nil {
		// the scheduler is waiting for the fake clock to bring somebody to a scheduling point
		select {
		case s.idleWake <- struct{}{}:
		default:
		}
	}
	s.mu.Unlock()
	<-t.wake
}

// creatorGid parses the calling goroutine's stack for its creator.
func creatorGid() uint64 {
	for size := 16 << 10; size <= 1<<20; size *= 4 {
		buf := make([]byte, size)
		n := runtime.Stack(buf, false)
		if n == size {
			continue
		}
		st := string(buf[:n])
		i := strings.LastIndex(st, " in goroutine ")
		if i < 0 {
			return 0
		}
		var id uint64
		for _, c := range st[i+len(" in goroutine "):] {
			if c < '0' || c > '9' {
				break
			}
			id = id*10 + uint64(c-'0')
		}
		return id
	}
	return 0
}

// Start is the first statement the rewriter puts into every goroutine the
// simulated packages spawn: it fixes the goroutine's group to the one its
// creator had *at the go statement* and parks.
func Start(label string, grp string, ord uint64) {
	s := active()
	if s == nil {
		return
	}
	g := goid()
	s.mu.Lock()
	s.groups[g] = grp
	if ord != 0 {
		s.ords[g] = ord
	}
	s.mu.Unlock()
	park(label, false)
}

// NextOrd returns the next creation-order stamp. The creator takes it at the go
// statement / when it arms a timer - points that happen in deterministic program
// order - because the order in which new goroutines (in particular the runtime's
// timer goroutines with equal deadlines) first run is the Go runtime's business.
func NextOrd() uint64 {
	s := active()
	if s == nil {
		return 0
	}
	s.mu.Lock()
	defer s.mu.Unlock()
	s.nextOrd++
	return s.nextOrd
}

// WrapE wraps the function literal handed to an errgroup-style Go method.
func WrapE[T any](label string, f func() T) func() T {
	grp, ord := Group(), NextOrd()
	return func() (res T) {
		defer Recover(label)
		Start(label, grp, ord)
		return f()
	}
}

// ProcLocal models package-level state of the simulated code as *per-process*
// state: several nodes (groups) share one OS process in the simulator, but a
// package-level variable of the real program exists once per process. The
// rewriter replaces uses of such variables (see simrewrite's procLocals) with a
// call of ProcLocal keyed by the calling goroutine's group. Outside a
// simulation there is exactly one instance.
func ProcLocal(name string, mk func() any) any {
	key := name
	s := active()
	if s != nil {
		key = Group() + "\x00" + name
		s.mu.Lock()
		defer s.mu.Unlock()
		if s.procLocals == nil {
			s.procLocals = map[string]any{}
		}
		if v, ok := s.procLocals[key]; ok {
			return v
		}
		v := mk()
		s.procLocals[key] = v
		return v
	}
	globalLocalsMu.Lock()
	defer globalLocalsMu.Unlock()
	if v, ok := globalLocals[key]; ok {
		return v
	}
	v := mk()
	globalLocals[key] = v
	return v
}

var globalLocalsMu sync.Mutex
var globalLocals = map[string]any{}

// SetGroup assigns the calling goroutine (and every goroutine it creates from
// now on, transitively) to a node/group. A killed group's goroutines are never
// scheduled again - the simulator's model of a process crash.
func SetGroup(name string) {
	s := active()
	if s == nil {
		return
	}
	g := goid()
	s.mu.Lock()
	s.groups[g] = name
	s.mu.Unlock()
}

// Group returns the calling goroutine's group.
func Group() string {
	s := active()
	if s == nil {
		return ""
	}
	g := goid()
	s.mu.Lock()
	defer s.mu.Unlock()
	return s.groups[g]
}

// KillGroup freezes every goroutine of the group at its current or next
// scheduling point, for the rest of the run.
func (s *Sim) KillGroup(name string) {
	s.mu.Lock()
	s.deadGroup[name] = true
	s.logLocked("kill " + name)
	s.mu.Unlock()
}

func (s *Sim) GroupDead(name string) bool { s.mu.Lock(); defer s.mu.Unlock(); return s.deadGroup[name] }

// Yield is a scheduling point.
func Yield(label string) { park(label, false) }

// ParkForever blocks the calling goroutine for the rest of the run (a fenced
// seam of a crashed node). Outside a simulation it panics, because that would be
// a harness bug.
func ParkForever(label string) {
	s := active()
	if s == nil {
		panic("verifsimrt.ParkForever outside a simulation: " + label)
	}
	s.mu.Lock()
	s.logLocked("fenced:" + label)
	s.mu.Unlock()
	select {}
}

// Send replaces `ch <- v`: a scheduling point before the hand-off. Every wake-up
// from a blocking operation is followed by an immediate park (here and in Recv,
// Select, Waited, Slept, Callback), so that at most one goroutine does real
// work between two scheduling decisions - otherwise a sender and the receiver
// it woke would both be runnable and their order would be the Go runtime's
// (run queue, sysmon pre-emption under load), which does not replay.
func Send[T any](label string, ch chan<- T, v T) {
	if active() == nil {
		ch <- v
		return
	}
	park(label, false)
	select {
	case ch <- v:
		return
	default:
	}
	ch <- v
	park(label+"#sent", false)
}

// Recv replaces a receive expression outside select.
func Recv[T any](label string, ch <-chan T) T {
	if active() == nil {
		return <-ch
	}
	select {
	case v := <-ch:
		return v
	default:
	}
	v := <-ch
	park(label+"#woke", false)
	return v
}

// Recv2 replaces `v, ok := <-ch`.
func Recv2[T any](label string, ch <-chan T) (T, bool) {
	if active() == nil {
		v, ok := <-ch
		return v, ok
	}
	select {
	case v, ok := <-ch:
		return v, ok
	default:
	}
	v, ok := <-ch
	park(label+"#woke", false)
	return v, ok
}

// Waited wraps the result of a blocking X.Wait() in expression position.
func Waited[T any](label string, v T) T {
	park(label+"#woke", false)
	return v
}

// Callback wraps the function handed to time.AfterFunc: the timer goroutine
// parks before doing anything, and a panic in it is recorded, not fatal.
func Callback(label string, f func()) func() {
	grp, ord := Group(), NextOrd() // timer goroutines have no creating goroutine: stamped by the registrant
	return func() {
		defer Recover(label)
		Start(label, grp, ord)
		f()
	}
}

// Sleep replaces time.Sleep.
func Sleep(label string, d time.Duration) {
	time.Sleep(d)
	park(label+"#woke", false)
}

// Lock replaces x.Lock() / x.RLock(): a scheduling point, then a TryLock loop
// that parks (durably, unlike sync.Mutex.Lock) while the lock is held.
func Lock(label string, try func() bool, lock func()) {
	s := active()
	if s == nil {
		lock()
		return
	}
	park(label, false)
	for !try() {
		park(label+"#wait", true)
	}
}

// Unlock replaces x.Unlock() / x.RUnlock(): performs it and tells the scheduler
// that mutex waiters may be worth retrying.
func Unlock(unlock func()) {
	unlock()
	if s := cur; s != nil {
		s.mu.Lock()
		s.unlockEpoch++
		s.mu.Unlock()
	}
}

// simLocker is the sync.Locker handed to a sync.Cond (and returned for
// RWMutex.RLocker()): its Lock is the same scheduling point + durable TryLock
// loop as every rewritten x.Lock(), so the re-lock inside Cond.Wait cannot
// block on a real mutex whose holder is parked.
type simLocker struct {
	try          func() bool
	lock, unlock func()
}

func (l *simLocker) Lock()         { Lock("lock@cond", l.try, l.lock) }
func (l *simLocker) Unlock()       { Unlock(l.unlock) }
func (l *simLocker) TryLock() bool { return l.try() }

// RLockerOf replaces x.RLocker().
func RLockerOf(try func() bool, lock, unlock func()) sync.Locker {
	return &simLocker{try: try, lock: lock, unlock: unlock}
}

// CondLocker wraps the argument of sync.NewCond.
func CondLocker(l sync.Locker) sync.Locker {
	if _, ok := l.(*simLocker); ok {
		return l
	}
	if t, ok := l.(interface{ TryLock() bool }); ok {
		return &simLocker{try: t.TryLock, lock: l.Lock, unlock: l.Unlock}
	}
	return l
}

// ---------------------------------------------------------------------------
// Select

type Case struct {
	dir reflect.SelectDir
	ch  reflect.Value
	val reflect.Value
}

func RecvCase[T any](ch <-chan T) Case {
	return Case{reflect.SelectRecv, reflect.ValueOf(ch), reflect.Value{}}
}
func SendCase[T any](ch chan<- T, v T) Case {
	return Case{reflect.SelectSend, reflect.ValueOf(ch), reflect.ValueOf(&v).Elem()}
}
func Cast[T any](ch <-chan T, v reflect.Value) T {
	if !v.IsValid() {
		var z T
		return z
	}
	r, _ := v.Interface().(T)
	return r
}

// Select replaces a select statement: scheduling point, then the ready cases
// are polled in an order drawn from the choice stream (the Go runtime would
// pick uniformly among ready cases with an unseedable RNG); if none is ready it
// returns -1 for a select with default and otherwise blocks like the original.
func Select(label string, hasDefault bool, cases ...Case) (int, reflect.Value, bool) {
	park(label, false)
	sc := make([]reflect.SelectCase, len(cases))
	for i, c := range cases {
		sc[i] = reflect.SelectCase{Dir: c.dir, Chan: c.ch, Send: c.val}
	}
	order := make([]int, len(sc))
	for i := range order {
		order[i] = i
	}
	if s := active(); s != nil && len(sc) > 1 {
		s.mu.Lock()
		if !s.stopped {
			// Only draw when at least two cases could be ready; cheap pre-check
			// is impossible without consuming, so draw a rotation + direction:
			// two draws instead of a full shuffle keep the vector short while
			// still letting any ready case win.
			r := s.chooseLocked(len(order))
			if r != 0 {
				rot := append(append([]int{}, order[r:]...), order[:r]...)
				order = rot
			}
		}
		s.mu.Unlock()
	}
	for _, i := range order {
		if !sc[i].Chan.IsValid() || sc[i].Chan.IsNil() {
			continue
		}
		one := []reflect.SelectCase{sc[i], {Dir: reflect.SelectDefault}}
		if idx, rv, ok := reflect.Select(one); idx == 0 {
			if s := active(); s != nil {
				s.mu.Lock()
				s.logLocked(label + "->" + itoa(i))
				s.mu.Unlock()
			}
			return i, rv, ok
		}
	}
	if hasDefault {
		return -1, reflect.Value{}, false
	}
	i, rv, ok := reflect.Select(sc)
	park(label+"#woke", false)
	return i, rv, ok
}

// ---------------------------------------------------------------------------
// Scheduler (runs on the bubble's root goroutine; never executes seam or
// instrumented code itself)

type StepResult int

const (
	Released StepResult = iota
	Advanced
	Idle // nothing parked and the idle horizon is exhausted
)

// enabledLocked returns the parked tasks that may be released now, current task
// first, then goroutine-creation order (deterministic across processes; the
// absolute ids are not and never reach the log).
func (s *Sim) enabledLocked() []*task {
	sort.Slice(s.parked, func(i, j int) bool { return s.parked[i].key < s.parked[j].key })
	var en []*task
	anyNonMutex := false
	for _, t := range s.parked {
		if t.group != "" && s.deadGroup[t.group] {
			continue
		}
		if t.mutex && t.epoch == s.unlockEpoch {
			continue
		}
		if !t.mutex {
			anyNonMutex = true
		}
		en = append(en, t)
	}
	if !anyNonMutex && len(en) == 0 {
		// only stale mutex waiters: let them retry (an un-instrumented Unlock
		// may have released the lock)
		for _, t := range s.parked {
			if t.group == "" || !s.deadGroup[t.group] {
				en = append(en, t)
			}
		}
	}
	for i, t := range en {
		if t.gid == s.lastGid && i != 0 {
			copy(en[1:i+1], en[0:i])
			en[0] = t
			break
		}
	}
	return en
}

var jumpTable = []time.Duration{time.Microsecond, 50 * time.Microsecond, time.Millisecond, 7 * time.Millisecond, 53 * time.Millisecond, 307 * time.Millisecond, 1009 * time.Millisecond, 10007 * time.Millisecond, 61 * time.Second}

// Step performs one scheduling decision.
func (s *Sim) Step() StepResult {
	synctest.Wait()
	s.mu.Lock()
	s.Steps++
	en := s.enabledLocked()
	if len(en) == 0 {
		s.mu.Unlock()
		if s.advanceUntilEvent(s.pol.IdleHorizon) {
			return Advanced
		}
		return Idle
	}
	w := s.pol.TaskWeight
	total := len(en) * w
	if w > 0 {
		total++
	} else {
		w = 1
		total = len(en)
	}
	x := s.chooseLocked(total)
	if x >= len(en)*w {
		// advance the clock although tasks could run (slow tasks / timers win races)
		maxJ := 0
		for maxJ+1 < len(jumpTable) && jumpTable[maxJ+1] <= s.pol.MaxBusyJump {
			maxJ++
		}
		d := jumpTable[s.chooseLocked(maxJ+1)]
		s.logLocked("clock+" + d.String())
		s.ClockJumps++
		s.mu.Unlock()
		time.Sleep(d)
		return Advanced
	}
	t := en[x/w]
	b := s.pol.Budgets[s.chooseLocked(len(s.pol.Budgets))]
	for i, p := range s.parked {
		if p == t {
			s.parked = append(s.parked[:i], s.parked[i+1:]...)
			break
		}
	}
	if t.gid != s.lastGid {
		s.Switches++
	}
	s.SchedHash = fnvAdd(s.SchedHash, t.label)
	s.lastGid = t.gid
	s.budget = b
	s.logLocked("run " + itoa(x/w) + "/" + itoa(len(en)) + " " + t.label)
	s.mu.Unlock()
	// distinct fake instants for things armed in different steps (timer ties
	// would otherwise be broken by the runtime's heap, differently per process)
	time.Sleep(time.Nanosecond)
	synctest.Wait()
	close(t.wake)
	return Released
}

// advanceUntilEvent lets the fake clock run until some goroutine that can be
// released parks at a yield (a timer fired and its goroutine reached a scheduling
// point) or limit has passed. The scheduler blocks on a channel the parking task
// signals, so the clock stops exactly at the instant of that timer: nobody is
// stalled beyond it. Reports whether anything parked.
func (s *Sim) advanceUntilEvent(limit time.Duration) bool {
	start := time.Now()
	ch := make(chan struct{}, 1)
	s.mu.Lock()
	s.idleWake = ch
	s.mu.Unlock()
	defer func() {
		s.mu.Lock()
		s.idleWake = nil
		s.mu.Unlock()
	}()
	timer := time.NewTimer(limit)
	defer timer.Stop()
	for {
		select {
		case <-ch:
		case <-timer.C:
			return false
		}
		synctest.Wait() // everybody woken at this instant has reached its scheduling point
		s.mu.Lock()
		n := len(s.enabledLocked()) // frozen (killed) tasks do not count
		if n > 0 {
			s.logLocked("idle-advance " + time.Since(start).String())
			s.ClockJumps++
			s.mu.Unlock()
			return true
		}
		s.mu.Unlock()
	}
}

// Run drives the schedule until done() reports true (checked at every
// quiescent point), the system is idle for the whole idle horizon, or maxSteps
// decisions were taken. It returns "done", "idle" or "steps".
func (s *Sim) Run(done func() bool, maxSteps int) string {
	for i := 0; i < maxSteps; i++ {
		synctest.Wait()
		if done != nil && done() {
			return "done"
		}
		if s.Step() == Idle {
			if done != nil && done() {
				return "done"
			}
			return "idle"
		}
	}
	return "steps"
}

// Pick is Choose for code running on the scheduler goroutine or on tasks.
func (s *Sim) Pick(n int, label string) int {
	s.mu.Lock()
	defer s.mu.Unlock()
	v := s.chooseLocked(n)
	s.logLocked("pick:" + label + "=" + itoa(v))
	return v
}

// Stop ends the simulation: parked tasks stay parked for ever (the bubble ends
// with synctest's deadlock panic, which the caller recovers, or the process
// exits). Yields of goroutines still running become no-ops.
func (s *Sim) Stop() {
	s.mu.Lock()
	s.stopped = true
	s.mu.Unlock()
}

// Detach removes the finished simulation (call after its bubble has ended).
func Detach() { cur = nil }

// ParkedLabels lists what is parked (diagnostics).
func (s *Sim) ParkedLabels() string {
	s.mu.Lock()
	defer s.mu.Unlock()
	var sb strings.Builder
	for _, t := range s.parked {
		sb.WriteString(t.label)
		sb.WriteByte(' ')
	}
	return sb.String()
}

// SetYieldHook installs an observer called (under the simulator lock, so it
// must be trivial) with the label of every scheduling point reached.
func (s *Sim) SetYieldHook(f func(label string)) { s.mu.Lock(); s.yieldHook = f; s.mu.Unlock() }

// ---------------------------------------------------------------------------
// Panics on goroutines the repository spawns

// Recover is deferred (by the rewriter) at the top of every `go func` literal
// and errgroup `Go(func)` literal of the simulated packages. Inside a simulation
// a panic there is recorded (the run ends and reports it) instead of killing the
// whole batch process; outside a simulation the panic continues.
func Recover(label string) {
	r := recover()
	if r == nil {
		return
	}
	s := active()
	if s == nil {
		panic(r)
	}
	msg := fmt.Sprintf("goroutine %s panicked: %v @ %s", label, r, panicSite())
	s.mu.Lock()
	if s.panicked == "" {
		s.panicked = msg
	}
	s.logLocked("PANIC " + label)
	s.mu.Unlock()
	// returning ends the goroutine (the deferred call sits in its top frame); its
	// stack - and whatever the panicking frames referenced - becomes garbage
}

func panicSite() string {
	pcs := make([]uintptr, 40)
	n := runtime.Callers(3, pcs)
	frames := runtime.CallersFrames(pcs[:n])
	for {
		f, more := frames.Next()
		if strings.HasPrefix(f.Function, "reduction.dev/reduction/") && !strings.Contains(f.Function, "verifsimrt") {
			file := f.File
			if i := strings.LastIndex(file, "/"); i >= 0 {
				file = file[i+1:]
			}
			return strings.TrimPrefix(f.Function, "reduction.dev/reduction/") + " " + file + ":" + itoa(f.Line)
		}
		if !more {
			return "?"
		}
	}
}

// Panicked returns the first recorded panic of a repository goroutine, or "".
func (s *Sim) Panicked() string { s.mu.Lock(); defer s.mu.Unlock(); return s.panicked }

// ParkedLabelsUnsafe is ParkedLabels for the watchdog (best effort, may block briefly).
func (s *Sim) ParkedLabelsUnsafe() string {
	if !s.mu.TryLock() {
		return "(simulator lock held)"
	}
	defer s.mu.Unlock()
	var sb strings.Builder
	for _, t := range s.parked {
		sb.WriteString(t.label)
		sb.WriteByte(' ')
	}
	return sb.String()
}
