// simrewrite instruments the synchronisation syntax of the simulated packages
// of /repo's *current working tree* and emits a `go build -overlay` file.
// Nothing is written into /repo. It changes only synchronisation syntax:
//
//	ch <- v            ->  verifsimrt.Send(label, ch, v)
//	select {...}       ->  switch verifsimrt.Select(label, hasDefault, cases...) {...}
//	x.Lock()/RLock()   ->  verifsimrt.Lock(label, x.TryLock, x.Lock)
//	x.Unlock()/RUnlock (stmt or defer) -> verifsimrt.Unlock(x.Unlock)
//	go func(){ body }  ->  go func(){ verifsimrt.Yield(label); body }
//
// usage: simrewrite <repo> <outdir> <simrt-src-dir> <extra-overlay-dir> <pkgdir>...
//
//	<extra-overlay-dir>: tree of generated files (protobuf) to add at the same relative paths
//
// Unknown syntax makes it exit non-zero (the check then exits 2), never silently skip.
package main

import (
	"bytes"
	"encoding/json"
	"fmt"
	"go/ast"
	"go/format"
	"go/parser"
	"go/token"
	"io/fs"
	"os"
	"path/filepath"
	"sort"
	"strconv"
	"strings"

	"golang.org/x/tools/go/ast/astutil"
)

const simrtPath = "reduction.dev/reduction/verifsimrt"

func die(f string, a ...any) {
	fmt.Fprintf(os.Stderr, "simrewrite: "+f+"\n", a...)
	os.Exit(2)
}

func main() {
	if len(os.Args) < 6 {
		die("usage: simrewrite <repo> <outdir> <simrt-src-dir> <gen-dir> <pkgdir>...")
	}
	repo, outDir, simrtDir, genDir := os.Args[1], os.Args[2], os.Args[3], os.Args[4]
	overlay := map[string]string{}
	os.MkdirAll(outDir, 0o755)
	stats := map[string]int{}

	// 1. runtime package, injected purely through the overlay
	ents, err := os.ReadDir(simrtDir)
	if err != nil {
		die("%v", err)
	}
	for _, e := range ents {
		if strings.HasSuffix(e.Name(), ".go") {
			abs, _ := filepath.Abs(filepath.Join(simrtDir, e.Name()))
			overlay[filepath.Join(repo, "verifsimrt", e.Name())] = abs
		}
	}
	// 2. generated files
	if genDir != "" && genDir != "-" {
		filepath.WalkDir(genDir, func(p string, d fs.DirEntry, err error) error {
			if err != nil || d.IsDir() || !strings.HasSuffix(p, ".go") {
				return nil
			}
			rel, _ := filepath.Rel(genDir, p)
			abs, _ := filepath.Abs(p)
			overlay[filepath.Join(repo, rel)] = abs
			return nil
		})
	}
	// 3. instrumented sources
	for _, pkg := range os.Args[5:] {
		dir := filepath.Join(repo, pkg)
		ents, err := os.ReadDir(dir)
		if err != nil {
			die("%v", err)
		}
		for _, e := range ents {
			n := e.Name()
			if e.IsDir() || !strings.HasSuffix(n, ".go") || strings.HasSuffix(n, "_test.go") || strings.HasSuffix(n, ".pb.go") || strings.HasSuffix(n, ".connect.go") {
				continue
			}
			path := filepath.Join(dir, n)
			fset := token.NewFileSet()
			f, err := parser.ParseFile(fset, path, nil, parser.ParseComments)
			if err != nil {
				die("%v", err)
			}
			if !rewriteFile(fset, f, filepath.Join(pkg, n), stats) {
				continue
			}
			astutil.AddImport(fset, f, simrtPath)
			var buf bytes.Buffer
			if err := format.Node(&buf, fset, f); err != nil {
				die("%s: %v", path, err)
			}
			dst := filepath.Join(outDir, strings.ReplaceAll(filepath.Join(pkg, n), "/", "__"))
			if err := os.WriteFile(dst, buf.Bytes(), 0o644); err != nil {
				die("%v", err)
			}
			abs, _ := filepath.Abs(dst)
			overlay[path] = abs
		}
	}
	b, _ := json.MarshalIndent(map[string]any{"Replace": overlay}, "", " ")
	if err := os.WriteFile(filepath.Join(outDir, "overlay.json"), b, 0o644); err != nil {
		die("%v", err)
	}
	var ks []string
	for k := range stats {
		ks = append(ks, k)
	}
	sort.Strings(ks)
	for _, k := range ks {
		fmt.Printf("simrewrite: %s=%d\n", k, stats[k])
	}
}

func sel(name string) ast.Expr {
	return &ast.SelectorExpr{X: ast.NewIdent("verifsimrt"), Sel: ast.NewIdent(name)}
}
func call(fn string, args ...ast.Expr) *ast.CallExpr {
	return &ast.CallExpr{Fun: sel(fn), Args: args}
}
func str(s string) ast.Expr { return &ast.BasicLit{Kind: token.STRING, Value: strconv.Quote(s)} }

func lockCall(ce *ast.CallExpr) (se *ast.SelectorExpr, kind string) {
	if len(ce.Args) != 0 {
		return nil, ""
	}
	se, ok := ce.Fun.(*ast.SelectorExpr)
	if !ok {
		return nil, ""
	}
	switch se.Sel.Name {
	case "Lock", "RLock", "Unlock", "RUnlock":
		return se, se.Sel.Name
	}
	return nil, ""
}

func rewriteFile(fset *token.FileSet, f *ast.File, rel string, stats map[string]int) bool {
	changed := false
	tmp := 0
	pos := func(n ast.Node) string {
		p := fset.Position(n.Pos())
		return fmt.Sprintf("%s:%d", rel, p.Line)
	}
	astutil.Apply(f, nil, func(c *astutil.Cursor) bool {
		switch n := c.Node().(type) {
		case *ast.SendStmt:
			if _, inComm := c.Parent().(*ast.CommClause); inComm && c.Name() == "Comm" {
				return true
			}
			c.Replace(&ast.ExprStmt{X: call("Send", str("send@"+pos(n)), n.Chan, n.Value)})
			stats["send"]++
			changed = true
		case *ast.ExprStmt:
			ce, ok := n.X.(*ast.CallExpr)
			if !ok {
				return true
			}
			se, kind := lockCall(ce)
			switch kind {
			case "Lock", "RLock":
				try := "Try" + kind
				c.Replace(&ast.ExprStmt{X: call("Lock", str("lock@"+pos(n)), &ast.SelectorExpr{X: se.X, Sel: ast.NewIdent(try)}, &ast.SelectorExpr{X: se.X, Sel: ast.NewIdent(kind)})})
				stats["lock"]++
				changed = true
			case "Unlock", "RUnlock":
				c.Replace(&ast.ExprStmt{X: call("Unlock", &ast.SelectorExpr{X: se.X, Sel: ast.NewIdent(kind)})})
				stats["unlock"]++
				changed = true
			}
		case *ast.DeferStmt:
			se, kind := lockCall(n.Call)
			if kind == "Unlock" || kind == "RUnlock" {
				n.Call = call("Unlock", &ast.SelectorExpr{X: se.X, Sel: ast.NewIdent(kind)})
				stats["unlock"]++
				changed = true
			} else if kind != "" {
				die("%s: deferred %s not supported", pos(n), kind)
			}
		case *ast.GoStmt:
			if fl, ok := n.Call.Fun.(*ast.FuncLit); ok {
				fl.Body.List = append([]ast.Stmt{
					&ast.DeferStmt{Call: call("Recover", str("go@"+pos(n)))},
					&ast.ExprStmt{X: call("Yield", str("go@"+pos(n)))}}, fl.Body.List...)
				stats["go"]++
				changed = true
			} else {
				stats["go-plain"]++
			}
		case *ast.CallExpr:
			// errgroup-style x.Go(func() error {...}): same treatment as a go statement
			if se, ok := n.Fun.(*ast.SelectorExpr); ok && se.Sel.Name == "Go" && len(n.Args) == 1 {
				if fl, ok := n.Args[0].(*ast.FuncLit); ok {
					fl.Body.List = append([]ast.Stmt{
						&ast.DeferStmt{Call: call("Recover", str("egGo@"+pos(n)))},
						&ast.ExprStmt{X: call("Yield", str("egGo@"+pos(n)))}}, fl.Body.List...)
					stats["eggo"]++
					changed = true
				}
			}
		case *ast.LabeledStmt:
			if _, ok := n.Stmt.(*ast.BlockStmt); ok {
				die("%s: labelled select not supported", pos(n))
			}
		case *ast.SelectStmt:
			var pre []ast.Stmt
			var cases []ast.Expr
			var clauses []ast.Stmt
			hasDefault := false
			idx := 0
			iID, rvID, okID := fmt.Sprintf("__i%d", tmp), fmt.Sprintf("__rv%d", tmp), fmt.Sprintf("__ok%d", tmp)
			tmp++
			use := func() ast.Stmt {
				return &ast.AssignStmt{Lhs: []ast.Expr{ast.NewIdent("_"), ast.NewIdent("_")}, Tok: token.ASSIGN, Rhs: []ast.Expr{ast.NewIdent(rvID), ast.NewIdent(okID)}}
			}
			for _, cl := range n.Body.List {
				cc := cl.(*ast.CommClause)
				if cc.Comm == nil {
					hasDefault = true
					clauses = append(clauses, &ast.CaseClause{List: []ast.Expr{&ast.UnaryExpr{Op: token.SUB, X: &ast.BasicLit{Kind: token.INT, Value: "1"}}}, Body: append([]ast.Stmt{use()}, cc.Body...)})
					continue
				}
				chID := ast.NewIdent(fmt.Sprintf("__c%d_%d", tmp, idx))
				body := []ast.Stmt{use()}
				recvChan := func(e ast.Expr) ast.Expr {
					ue, ok := e.(*ast.UnaryExpr)
					if !ok || ue.Op != token.ARROW {
						die("%s: unsupported select receive form", pos(cc))
					}
					return ue.X
				}
				switch cm := cc.Comm.(type) {
				case *ast.SendStmt:
					pre = append(pre, &ast.AssignStmt{Lhs: []ast.Expr{chID}, Tok: token.DEFINE, Rhs: []ast.Expr{cm.Chan}})
					cases = append(cases, call("SendCase", chID, cm.Value))
				case *ast.ExprStmt: // <-ch
					pre = append(pre, &ast.AssignStmt{Lhs: []ast.Expr{chID}, Tok: token.DEFINE, Rhs: []ast.Expr{recvChan(cm.X)}})
					cases = append(cases, call("RecvCase", chID))
				case *ast.AssignStmt: // v := <-ch ; v, ok := <-ch ; x = <-ch
					if len(cm.Rhs) != 1 {
						die("%s: unsupported select assign form", pos(cc))
					}
					pre = append(pre, &ast.AssignStmt{Lhs: []ast.Expr{chID}, Tok: token.DEFINE, Rhs: []ast.Expr{recvChan(cm.Rhs[0])}})
					cases = append(cases, call("RecvCase", chID))
					rhs := []ast.Expr{call("Cast", chID, ast.NewIdent(rvID))}
					if len(cm.Lhs) == 2 {
						rhs = append(rhs, ast.NewIdent(okID))
					}
					body = append(body, &ast.AssignStmt{Lhs: cm.Lhs, Tok: cm.Tok, Rhs: rhs})
					for _, l := range cm.Lhs {
						if id, ok := l.(*ast.Ident); ok && id.Name != "_" && cm.Tok == token.DEFINE {
							body = append(body, &ast.AssignStmt{Lhs: []ast.Expr{ast.NewIdent("_")}, Tok: token.ASSIGN, Rhs: []ast.Expr{ast.NewIdent(id.Name)}})
						}
					}
				default:
					die("%s: unsupported select clause", pos(cc))
				}
				body = append(body, cc.Body...)
				clauses = append(clauses, &ast.CaseClause{List: []ast.Expr{&ast.BasicLit{Kind: token.INT, Value: strconv.Itoa(idx)}}, Body: body})
				idx++
			}
			hd := "false"
			if hasDefault {
				hd = "true"
			}
			args := append([]ast.Expr{str("select@" + pos(n)), ast.NewIdent(hd)}, cases...)
			sw := &ast.SwitchStmt{
				Init: &ast.AssignStmt{Lhs: []ast.Expr{ast.NewIdent(iID), ast.NewIdent(rvID), ast.NewIdent(okID)}, Tok: token.DEFINE, Rhs: []ast.Expr{call("Select", args...)}},
				Tag:  ast.NewIdent(iID),
				Body: &ast.BlockStmt{List: clauses},
			}
			if _, labelled := c.Parent().(*ast.LabeledStmt); labelled {
				die("%s: labelled select not supported", pos(n))
			}
			c.Replace(&ast.BlockStmt{List: append(pre, sw)})
			stats["select"]++
			changed = true
		}
		return true
	})
	return changed
}
