// simrewrite instruments the synchronisation syntax of the simulated packages
// of /repo's *current working tree* and emits a `go build -overlay` file.
// Nothing is written into /repo. It changes only synchronisation syntax:
//
//	ch <- v            ->  verifsimrt.Send(label, ch, v)
//	select {...}       ->  switch verifsimrt.Select(label, hasDefault, cases...) {...}
//	x.Lock()/RLock()   ->  verifsimrt.Lock(label, x.TryLock, x.Lock)
//	x.Unlock()/RUnlock (stmt or defer) -> verifsimrt.Unlock(x.Unlock)
//	go func(){ body }  ->  go func(){ verifsimrt.Yield(label); body }
//
// usage: simrewrite <repo> <outdir> <simrt-src-dir> <extra-overlay-dir> <pkgdir>...
//
//	<extra-overlay-dir>: tree of generated files (protobuf) to add at the same relative paths
//
// Unknown syntax makes it exit non-zero (the check then exits 2), never silently skip.
package main

import (
	"bytes"
	"encoding/json"
	"fmt"
	"go/ast"
	"go/format"
	"go/parser"
	"go/token"
	"io/fs"
	"os"
	"path/filepath"
	"sort"
	"strconv"
	"strings"

	"golang.org/x/tools/go/ast/astutil"
)

const simrtPath = "reduction.dev/reduction/verifsimrt"

func die(f string, a ...any) {
	fmt.Fprintf(os.Stderr, "simrewrite: "+f+"\n", a...)
	os.Exit(2)
}

func main() {
	if len(os.Args) < 6 {
		die("usage: simrewrite <repo> <outdir> <simrt-src-dir> <gen-dir> <pkgdir>...")
	}
	repo, outDir, simrtDir, genDir := os.Args[1], os.Args[2], os.Args[3], os.Args[4]
	overlay := map[string]string{}
	os.MkdirAll(outDir, 0o755)
	stats := map[string]int{}

	// 1. runtime package, injected purely through the overlay
	ents, err := os.ReadDir(simrtDir)
	if err != nil {
		die("%v", err)
	}
	for _, e := range ents {
		if strings.HasSuffix(e.Name(), ".go") {
			abs, _ := filepath.Abs(filepath.Join(simrtDir, e.Name()))
			overlay[filepath.Join(repo, "verifsimrt", e.Name())] = abs
		}
	}
	// 2. generated files
	if genDir != "" && genDir != "-" {
		filepath.WalkDir(genDir, func(p string, d fs.DirEntry, err error) error {
			if err != nil || d.IsDir() || !strings.HasSuffix(p, ".go") {
				return nil
			}
			rel, _ := filepath.Rel(genDir, p)
			abs, _ := filepath.Abs(p)
			overlay[filepath.Join(repo, rel)] = abs
			return nil
		})
	}
	// 3. instrumented sources (first pass: channel-typed names)
	for _, pkg := range os.Args[5:] {
		ents, err := os.ReadDir(filepath.Join(repo, pkg))
		if err != nil {
			die("%v", err)
		}
		for _, e := range ents {
			n := e.Name()
			if e.IsDir() || !strings.HasSuffix(n, ".go") || strings.HasSuffix(n, "_test.go") {
				continue
			}
			f, err := parser.ParseFile(token.NewFileSet(), filepath.Join(repo, pkg, n), nil, 0)
			if err != nil {
				die("%v", err)
			}
			collectChanNames(f)
		}
	}
	for _, pkg := range os.Args[5:] {
		dir := filepath.Join(repo, pkg)
		ents, err := os.ReadDir(dir)
		if err != nil {
			die("%v", err)
		}
		for _, e := range ents {
			n := e.Name()
			if e.IsDir() || !strings.HasSuffix(n, ".go") || strings.HasSuffix(n, "_test.go") || strings.HasSuffix(n, ".pb.go") || strings.HasSuffix(n, ".connect.go") {
				continue
			}
			path := filepath.Join(dir, n)
			fset := token.NewFileSet()
			f, err := parser.ParseFile(fset, path, nil, parser.ParseComments)
			if err != nil {
				die("%v", err)
			}
			if !rewriteFile(fset, f, filepath.Join(pkg, n), stats) {
				continue
			}
			astutil.AddImport(fset, f, simrtPath)
			var buf bytes.Buffer
			if err := format.Node(&buf, fset, f); err != nil {
				die("%s: %v", path, err)
			}
			dst := filepath.Join(outDir, strings.ReplaceAll(filepath.Join(pkg, n), "/", "__"))
			if err := os.WriteFile(dst, buf.Bytes(), 0o644); err != nil {
				die("%v", err)
			}
			abs, _ := filepath.Abs(dst)
			overlay[path] = abs
		}
	}
	b, _ := json.MarshalIndent(map[string]any{"Replace": overlay}, "", " ")
	if err := os.WriteFile(filepath.Join(outDir, "overlay.json"), b, 0o644); err != nil {
		die("%v", err)
	}
	var ks []string
	for k := range stats {
		ks = append(ks, k)
	}
	sort.Strings(ks)
	for _, k := range ks {
		fmt.Printf("simrewrite: %s=%d\n", k, stats[k])
	}
}

func sel(name string) ast.Expr {
	return &ast.SelectorExpr{X: ast.NewIdent("verifsimrt"), Sel: ast.NewIdent(name)}
}
func call(fn string, args ...ast.Expr) *ast.CallExpr {
	return &ast.CallExpr{Fun: sel(fn), Args: args}
}
func str(s string) ast.Expr { return &ast.BasicLit{Kind: token.STRING, Value: strconv.Quote(s)} }

// se2 returns the receiver of a lock call when it is itself a selector (x.L in x.L.Lock()).
func se2(se *ast.SelectorExpr) (*ast.SelectorExpr, bool) {
	if se == nil {
		return nil, false
	}
	x, ok := se.X.(*ast.SelectorExpr)
	return x, ok
}

func lockCall(ce *ast.CallExpr) (se *ast.SelectorExpr, kind string) {
	if len(ce.Args) != 0 {
		return nil, ""
	}
	se, ok := ce.Fun.(*ast.SelectorExpr)
	if !ok {
		return nil, ""
	}
	switch se.Sel.Name {
	case "Lock", "RLock", "Unlock", "RUnlock":
		return se, se.Sel.Name
	}
	return nil, ""
}

// procLocals: package-level variables that are per-process state in the real
// program. Their *uses* (not the declaration) are replaced by
// verifsimrt.ProcLocal(name, constructor).(type) so that every simulated node
// gets its own instance. file -> variable -> (constructor source, type source)
var procLocals = map[string]map[string][2]string{
	"dkv/db.go": {
		"flushMemTablesQueue": {"bg.NewQueue(5)", "*bg.TaskQueue"},
		"compactionQueue":     {"bg.NewQueue(5)", "*bg.TaskQueue"},
	},
}

func mustExpr(src string) ast.Expr {
	e, err := parser.ParseExpr(src)
	if err != nil {
		die("bad expression %q: %v", src, err)
	}
	return e
}

// chanNames holds identifiers (fields, variables, parameters) declared with a
// channel type anywhere in the simulated packages; `for x := range <name>` over
// one of them gets a scheduling point at the top of its body.
var chanNames = map[string]bool{}

func collectChanNames(f *ast.File) {
	ast.Inspect(f, func(n ast.Node) bool {
		switch n := n.(type) {
		case *ast.Field:
			if _, ok := n.Type.(*ast.ChanType); ok {
				for _, id := range n.Names {
					chanNames[id.Name] = true
				}
			}
		case *ast.ValueSpec:
			if _, ok := n.Type.(*ast.ChanType); ok {
				for _, id := range n.Names {
					chanNames[id.Name] = true
				}
			}
		case *ast.AssignStmt:
			for i, r := range n.Rhs {
				if ce, ok := r.(*ast.CallExpr); ok {
					if id, ok := ce.Fun.(*ast.Ident); ok && id.Name == "make" && len(ce.Args) > 0 {
						if _, ok := ce.Args[0].(*ast.ChanType); ok && i < len(n.Lhs) {
							switch l := n.Lhs[i].(type) {
							case *ast.Ident:
								chanNames[l.Name] = true
							case *ast.SelectorExpr:
								chanNames[l.Sel.Name] = true
							}
						}
					}
				}
			}
		}
		return true
	})
}

func terminalName(e ast.Expr) string {
	switch x := e.(type) {
	case *ast.Ident:
		return x.Name
	case *ast.SelectorExpr:
		return x.Sel.Name
	}
	return ""
}

func isPkgCall(ce *ast.CallExpr, pkg, fn string) bool {
	se, ok := ce.Fun.(*ast.SelectorExpr)
	if !ok || se.Sel.Name != fn {
		return false
	}
	id, ok := se.X.(*ast.Ident)
	return ok && id.Name == pkg
}

func rewriteFile(fset *token.FileSet, f *ast.File, rel string, stats map[string]int) bool {
	changed := false
	tmp := 0
	pos := func(n ast.Node) string {
		p := fset.Position(n.Pos())
		return fmt.Sprintf("%s:%d", rel, p.Line)
	}
	selectComm := map[ast.Stmt]bool{}
	ast.Inspect(f, func(n ast.Node) bool {
		if cc, ok := n.(*ast.CommClause); ok && cc.Comm != nil {
			selectComm[cc.Comm] = true
		}
		return true
	})
	astutil.Apply(f, nil, func(c *astutil.Cursor) bool {
		switch n := c.Node().(type) {
		case *ast.SendStmt:
			if _, inComm := c.Parent().(*ast.CommClause); inComm && c.Name() == "Comm" {
				return true
			}
			c.Replace(&ast.ExprStmt{X: call("Send", str("send@"+pos(n)), n.Chan, n.Value)})
			stats["send"]++
			changed = true
		case *ast.Ident:
			pl, ok := procLocals[rel][n.Name]
			if !ok {
				return true
			}
			switch par := c.Parent().(type) {
			case *ast.ValueSpec: // the declaration itself stays
				return true
			case *ast.AssignStmt: // assignments (the verif reset hook) stay too
				for _, l := range par.Lhs {
					if l == ast.Expr(n) {
						return true
					}
				}
			case *ast.SelectorExpr:
				if par.Sel == n {
					return true
				}
			}
			c.Replace(&ast.TypeAssertExpr{
				X: call("ProcLocal", str(rel+":"+n.Name), &ast.FuncLit{
					Type: &ast.FuncType{Params: &ast.FieldList{}, Results: &ast.FieldList{List: []*ast.Field{{Type: ast.NewIdent("any")}}}},
					Body: &ast.BlockStmt{List: []ast.Stmt{&ast.ReturnStmt{Results: []ast.Expr{mustExpr(pl[0])}}}},
				}),
				Type: mustExpr(pl[1]),
			})
			stats["proc-local"]++
			changed = true
		case *ast.UnaryExpr:
			if n.Op != token.ARROW {
				return true
			}
			// receives that are the Comm of a select clause are handled by the select rewrite
			switch par := c.Parent().(type) {
			case *ast.CommClause:
				if c.Name() == "Comm" {
					return true
				}
			case *ast.ExprStmt:
				if selectComm[par] {
					return true
				}
			case *ast.AssignStmt:
				if selectComm[par] {
					return true
				}
				if len(par.Lhs) == 2 && len(par.Rhs) == 1 {
					c.Replace(call("Recv2", str("recv@"+pos(n)), n.X))
					stats["recv"]++
					changed = true
					return true
				}
			}
			c.Replace(call("Recv", str("recv@"+pos(n)), n.X))
			stats["recv"]++
			changed = true
		case *ast.RangeStmt:
			if nm := terminalName(n.X); nm != "" && chanNames[nm] && n.Value == nil {
				n.Body.List = append([]ast.Stmt{&ast.ExprStmt{X: call("Yield", str("range@"+pos(n)))}}, n.Body.List...)
				stats["range-chan"]++
				changed = true
			}
		case *ast.ExprStmt:
			ce, ok := n.X.(*ast.CallExpr)
			if !ok {
				return true
			}
			if isPkgCall(ce, "time", "Sleep") && len(ce.Args) == 1 {
				c.Replace(&ast.ExprStmt{X: call("Sleep", str("sleep@"+pos(n)), ce.Args[0])})
				stats["sleep"]++
				changed = true
				return true
			}
			if se, ok := ce.Fun.(*ast.SelectorExpr); ok && se.Sel.Name == "Wait" && len(ce.Args) == 0 {
				if _, isBlk := c.Parent().(*ast.BlockStmt); isBlk {
					c.InsertAfter(&ast.ExprStmt{X: call("Yield", str("waited@"+pos(n)))})
					stats["wait"]++
					changed = true
					return true
				}
				if _, isCase := c.Parent().(*ast.CaseClause); isCase {
					c.InsertAfter(&ast.ExprStmt{X: call("Yield", str("waited@"+pos(n)))})
					stats["wait"]++
					changed = true
					return true
				}
				die("%s: Wait() statement in unsupported position", pos(n))
			}
			se, kind := lockCall(ce)
			if lx, ok := se2(se); ok && lx.Sel.Name == "L" && (kind == "Lock" || kind == "RLock") {
				return true // a sync.Cond's Locker (wrapped by CondLocker): its Lock parks by itself
			}
			switch kind {
			case "Lock", "RLock":
				try := "Try" + kind
				c.Replace(&ast.ExprStmt{X: call("Lock", str("lock@"+pos(n)), &ast.SelectorExpr{X: se.X, Sel: ast.NewIdent(try)}, &ast.SelectorExpr{X: se.X, Sel: ast.NewIdent(kind)})})
				stats["lock"]++
				changed = true
			case "Unlock", "RUnlock":
				c.Replace(&ast.ExprStmt{X: call("Unlock", &ast.SelectorExpr{X: se.X, Sel: ast.NewIdent(kind)})})
				stats["unlock"]++
				changed = true
			}
		case *ast.DeferStmt:
			se, kind := lockCall(n.Call)
			if kind == "Unlock" || kind == "RUnlock" {
				n.Call = call("Unlock", &ast.SelectorExpr{X: se.X, Sel: ast.NewIdent(kind)})
				stats["unlock"]++
				changed = true
			} else if kind != "" {
				die("%s: deferred %s not supported", pos(n), kind)
			}
		case *ast.GoStmt:
			gv := fmt.Sprintf("__vg%d", tmp)
			tmp++
			ov := gv + "o"
			capture := &ast.AssignStmt{Lhs: []ast.Expr{ast.NewIdent(gv), ast.NewIdent(ov)}, Tok: token.DEFINE, Rhs: []ast.Expr{call("Group"), call("NextOrd")}}
			if fl, ok := n.Call.Fun.(*ast.FuncLit); ok {
				fl.Body.List = append([]ast.Stmt{
					&ast.DeferStmt{Call: call("Recover", str("go@"+pos(n)))},
					&ast.ExprStmt{X: call("Start", str("go@"+pos(n)), ast.NewIdent(gv), ast.NewIdent(ov))}}, fl.Body.List...)
				if _, labelled := c.Parent().(*ast.LabeledStmt); labelled {
					die("%s: labelled go statement not supported", pos(n))
				}
				c.Replace(&ast.BlockStmt{List: []ast.Stmt{capture, n}})
				stats["go"]++
				changed = true
			} else {
				for _, a := range n.Call.Args {
					if terminalName(a) == "" {
						die("%s: go statement with non-trivial arguments not supported", pos(n))
					}
				}
				inner := &ast.CallExpr{Fun: n.Call.Fun, Args: n.Call.Args, Ellipsis: n.Call.Ellipsis}
				n.Call = &ast.CallExpr{Fun: &ast.FuncLit{Type: &ast.FuncType{Params: &ast.FieldList{}}, Body: &ast.BlockStmt{List: []ast.Stmt{
					&ast.DeferStmt{Call: call("Recover", str("go@"+pos(n)))},
					&ast.ExprStmt{X: call("Start", str("go@"+pos(n)), ast.NewIdent(gv), ast.NewIdent(ov))},
					&ast.ExprStmt{X: inner},
				}}}}
				c.Replace(&ast.BlockStmt{List: []ast.Stmt{capture, n}})
				stats["go-plain"]++
				changed = true
			}
		case *ast.CallExpr:
			// sync.Cond: its Locker is wrapped so that the re-lock inside Cond.Wait (and direct
			// c.L.Lock() calls, which are left as they are) parks durably like every other lock
			if isPkgCall(n, "sync", "NewCond") && len(n.Args) == 1 {
				n.Args[0] = call("CondLocker", n.Args[0])
				stats["cond"]++
				changed = true
				return true
			}
			if se, ok := n.Fun.(*ast.SelectorExpr); ok && se.Sel.Name == "RLocker" && len(n.Args) == 0 {
				c.Replace(call("RLockerOf", &ast.SelectorExpr{X: se.X, Sel: ast.NewIdent("TryRLock")}, &ast.SelectorExpr{X: se.X, Sel: ast.NewIdent("RLock")}, &ast.SelectorExpr{X: se.X, Sel: ast.NewIdent("RUnlock")}))
				stats["rlocker"]++
				changed = true
				return true
			}
			if isPkgCall(n, "time", "AfterFunc") && len(n.Args) == 2 {
				n.Args[1] = call("Callback", str("afterfunc@"+pos(n)), n.Args[1])
				stats["afterfunc"]++
				changed = true
				return true
			}
			if se, ok := n.Fun.(*ast.SelectorExpr); ok && se.Sel.Name == "Wait" && len(n.Args) == 0 {
				if _, isStmt := c.Parent().(*ast.ExprStmt); !isStmt {
					if _, isDefer := c.Parent().(*ast.DeferStmt); isDefer {
						die("%s: deferred Wait() not supported", pos(n))
					}
					c.Replace(call("Waited", str("waited@"+pos(n)), n))
					stats["wait"]++
					changed = true
					return true
				}
			}
			// errgroup-style x.Go(func() error {...}): same treatment as a go statement
			if se, ok := n.Fun.(*ast.SelectorExpr); ok && se.Sel.Name == "Go" && len(n.Args) == 1 {
				if fl, ok := n.Args[0].(*ast.FuncLit); ok {
					n.Args[0] = call("WrapE", str("egGo@"+pos(n)), fl)
					stats["eggo"]++
					changed = true
				}
			}
		case *ast.LabeledStmt:
			if _, ok := n.Stmt.(*ast.BlockStmt); ok {
				die("%s: labelled select not supported", pos(n))
			}
		case *ast.SelectStmt:
			var pre []ast.Stmt
			var cases []ast.Expr
			var clauses []ast.Stmt
			hasDefault := false
			idx := 0
			iID, rvID, okID := fmt.Sprintf("__i%d", tmp), fmt.Sprintf("__rv%d", tmp), fmt.Sprintf("__ok%d", tmp)
			tmp++
			use := func() ast.Stmt {
				return &ast.AssignStmt{Lhs: []ast.Expr{ast.NewIdent("_"), ast.NewIdent("_")}, Tok: token.ASSIGN, Rhs: []ast.Expr{ast.NewIdent(rvID), ast.NewIdent(okID)}}
			}
			for _, cl := range n.Body.List {
				cc := cl.(*ast.CommClause)
				if cc.Comm == nil {
					hasDefault = true
					clauses = append(clauses, &ast.CaseClause{List: []ast.Expr{&ast.UnaryExpr{Op: token.SUB, X: &ast.BasicLit{Kind: token.INT, Value: "1"}}}, Body: append([]ast.Stmt{use()}, cc.Body...)})
					continue
				}
				chID := ast.NewIdent(fmt.Sprintf("__c%d_%d", tmp, idx))
				body := []ast.Stmt{use()}
				recvChan := func(e ast.Expr) ast.Expr {
					ue, ok := e.(*ast.UnaryExpr)
					if !ok || ue.Op != token.ARROW {
						die("%s: unsupported select receive form", pos(cc))
					}
					return ue.X
				}
				switch cm := cc.Comm.(type) {
				case *ast.SendStmt:
					pre = append(pre, &ast.AssignStmt{Lhs: []ast.Expr{chID}, Tok: token.DEFINE, Rhs: []ast.Expr{cm.Chan}})
					cases = append(cases, call("SendCase", chID, cm.Value))
				case *ast.ExprStmt: // <-ch
					pre = append(pre, &ast.AssignStmt{Lhs: []ast.Expr{chID}, Tok: token.DEFINE, Rhs: []ast.Expr{recvChan(cm.X)}})
					cases = append(cases, call("RecvCase", chID))
				case *ast.AssignStmt: // v := <-ch ; v, ok := <-ch ; x = <-ch
					if len(cm.Rhs) != 1 {
						die("%s: unsupported select assign form", pos(cc))
					}
					pre = append(pre, &ast.AssignStmt{Lhs: []ast.Expr{chID}, Tok: token.DEFINE, Rhs: []ast.Expr{recvChan(cm.Rhs[0])}})
					cases = append(cases, call("RecvCase", chID))
					rhs := []ast.Expr{call("Cast", chID, ast.NewIdent(rvID))}
					if len(cm.Lhs) == 2 {
						rhs = append(rhs, ast.NewIdent(okID))
					}
					body = append(body, &ast.AssignStmt{Lhs: cm.Lhs, Tok: cm.Tok, Rhs: rhs})
					for _, l := range cm.Lhs {
						if id, ok := l.(*ast.Ident); ok && id.Name != "_" && cm.Tok == token.DEFINE {
							body = append(body, &ast.AssignStmt{Lhs: []ast.Expr{ast.NewIdent("_")}, Tok: token.ASSIGN, Rhs: []ast.Expr{ast.NewIdent(id.Name)}})
						}
					}
				default:
					die("%s: unsupported select clause", pos(cc))
				}
				body = append(body, cc.Body...)
				clauses = append(clauses, &ast.CaseClause{List: []ast.Expr{&ast.BasicLit{Kind: token.INT, Value: strconv.Itoa(idx)}}, Body: body})
				idx++
			}
			hd := "false"
			if hasDefault {
				hd = "true"
			}
			args := append([]ast.Expr{str("select@" + pos(n)), ast.NewIdent(hd)}, cases...)
			sw := &ast.SwitchStmt{
				Init: &ast.AssignStmt{Lhs: []ast.Expr{ast.NewIdent(iID), ast.NewIdent(rvID), ast.NewIdent(okID)}, Tok: token.DEFINE, Rhs: []ast.Expr{call("Select", args...)}},
				Tag:  ast.NewIdent(iID),
				Body: &ast.BlockStmt{List: clauses},
			}
			if _, labelled := c.Parent().(*ast.LabeledStmt); labelled {
				die("%s: labelled select not supported", pos(n))
			}
			c.Replace(&ast.BlockStmt{List: append(pre, sw)})
			stats["select"]++
			changed = true
		}
		return true
	})
	return changed
}
