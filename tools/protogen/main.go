package main

import (
	"bytes"
	"fmt"
	"os"
	"os/exec"
	"path/filepath"
	"strconv"
	"strings"
	"unicode"

	"google.golang.org/protobuf/cmd/protoc-gen-go/internal_gengo"
	"google.golang.org/protobuf/compiler/protogen"
	"google.golang.org/protobuf/proto"
	"google.golang.org/protobuf/reflect/protodesc"
	"google.golang.org/protobuf/reflect/protoreflect"
	"google.golang.org/protobuf/reflect/protoregistry"
	"google.golang.org/protobuf/types/descriptorpb"
	"google.golang.org/protobuf/types/pluginpb"

	_ "google.golang.org/protobuf/types/known/durationpb"
	_ "google.golang.org/protobuf/types/known/timestamppb"
	_ "reduction.dev/reduction-protocol/handlerpb"
	_ "reduction.dev/reduction-protocol/jobconfigpb"
)

type tok struct {
	s   string
	str bool
}

func lex(src string) []tok {
	var out []tok
	i := 0
	for i < len(src) {
		c := src[i]
		switch {
		case c == '/' && i+1 < len(src) && src[i+1] == '/':
			for i < len(src) && src[i] != '\n' {
				i++
			}
		case c == '/' && i+1 < len(src) && src[i+1] == '*':
			j := strings.Index(src[i+2:], "*/")
			i += j + 4
		case unicode.IsSpace(rune(c)):
			i++
		case c == '"':
			j := i + 1
			for src[j] != '"' {
				j++
			}
			out = append(out, tok{src[i+1 : j], true})
			i = j + 1
		case unicode.IsLetter(rune(c)) || c == '_' || unicode.IsDigit(rune(c)):
			j := i
			for j < len(src) && (unicode.IsLetter(rune(src[j])) || src[j] == '_' || src[j] == '.' || unicode.IsDigit(rune(src[j]))) {
				j++
			}
			out = append(out, tok{src[i:j], false})
			i = j
		default:
			out = append(out, tok{string(c), false})
			i++
		}
	}
	return out
}

type parser struct {
	t []tok
	i int
}

func (p *parser) next() tok { t := p.t[p.i]; p.i++; return t }
func (p *parser) peek() tok { return p.t[p.i] }
func (p *parser) eof() bool { return p.i >= len(p.t) }
func (p *parser) expect(s string) {
	if t := p.next(); t.s != s {
		panic(fmt.Sprintf("expected %q got %q at %d", s, t.s, p.i))
	}
}

var scalar = map[string]descriptorpb.FieldDescriptorProto_Type{
	"double": descriptorpb.FieldDescriptorProto_TYPE_DOUBLE, "float": descriptorpb.FieldDescriptorProto_TYPE_FLOAT,
	"int64": descriptorpb.FieldDescriptorProto_TYPE_INT64, "uint64": descriptorpb.FieldDescriptorProto_TYPE_UINT64,
	"int32": descriptorpb.FieldDescriptorProto_TYPE_INT32, "uint32": descriptorpb.FieldDescriptorProto_TYPE_UINT32,
	"bool": descriptorpb.FieldDescriptorProto_TYPE_BOOL, "string": descriptorpb.FieldDescriptorProto_TYPE_STRING,
	"bytes": descriptorpb.FieldDescriptorProto_TYPE_BYTES,
}

func jsonName(n string) string {
	var b strings.Builder
	up := false
	for _, r := range n {
		if r == '_' {
			up = true
			continue
		}
		if up {
			b.WriteRune(unicode.ToUpper(r))
			up = false
		} else {
			b.WriteRune(r)
		}
	}
	return b.String()
}

func (p *parser) field(msg *descriptorpb.DescriptorProto, oneof *int32) {
	label := descriptorpb.FieldDescriptorProto_LABEL_OPTIONAL
	t := p.next()
	if t.s == "repeated" {
		label = descriptorpb.FieldDescriptorProto_LABEL_REPEATED
		t = p.next()
	}
	name := p.next().s
	p.expect("=")
	num, err := strconv.Atoi(p.next().s)
	if err != nil {
		panic(err)
	}
	p.expect(";")
	f := &descriptorpb.FieldDescriptorProto{
		Name: proto.String(name), Number: proto.Int32(int32(num)), Label: label.Enum(),
		JsonName: proto.String(jsonName(name)), OneofIndex: oneof,
	}
	if st, ok := scalar[t.s]; ok {
		f.Type = st.Enum()
	} else {
		f.TypeName = proto.String(t.s)
	}
	msg.Field = append(msg.Field, f)
}

func (p *parser) message() *descriptorpb.DescriptorProto {
	msg := &descriptorpb.DescriptorProto{Name: proto.String(p.next().s)}
	p.expect("{")
	for p.peek().s != "}" {
		if p.peek().s == "oneof" {
			p.next()
			on := p.next().s
			idx := int32(len(msg.OneofDecl))
			msg.OneofDecl = append(msg.OneofDecl, &descriptorpb.OneofDescriptorProto{Name: proto.String(on)})
			p.expect("{")
			for p.peek().s != "}" {
				p.field(msg, proto.Int32(idx))
			}
			p.expect("}")
			continue
		}
		p.field(msg, nil)
	}
	p.expect("}")
	return msg
}

func (p *parser) service() *descriptorpb.ServiceDescriptorProto {
	svc := &descriptorpb.ServiceDescriptorProto{Name: proto.String(p.next().s)}
	p.expect("{")
	for p.peek().s != "}" {
		p.expect("rpc")
		m := &descriptorpb.MethodDescriptorProto{Name: proto.String(p.next().s)}
		p.expect("(")
		m.InputType = proto.String(p.next().s)
		p.expect(")")
		p.expect("returns")
		p.expect("(")
		m.OutputType = proto.String(p.next().s)
		p.expect(")")
		p.expect(";")
		svc.Method = append(svc.Method, m)
	}
	p.expect("}")
	return svc
}

func parseFile(path, src string) *descriptorpb.FileDescriptorProto {
	p := &parser{t: lex(src)}
	fd := &descriptorpb.FileDescriptorProto{Name: proto.String(path), Options: &descriptorpb.FileOptions{}}
	for !p.eof() {
		t := p.next()
		switch t.s {
		case "syntax":
			p.expect("=")
			fd.Syntax = proto.String(p.next().s)
			p.expect(";")
		case "package":
			fd.Package = proto.String(p.next().s)
			p.expect(";")
		case "import":
			fd.Dependency = append(fd.Dependency, p.next().s)
			p.expect(";")
		case "option":
			n := p.next().s
			p.expect("=")
			v := p.next().s
			p.expect(";")
			if n == "go_package" {
				fd.Options.GoPackage = proto.String(v)
			}
		case "message":
			fd.MessageType = append(fd.MessageType, p.message())
		case "service":
			fd.Service = append(fd.Service, p.service())
		default:
			panic("unexpected token " + t.s)
		}
	}
	return fd
}

func resolve(fd *descriptorpb.FileDescriptorProto, known map[string]bool) {
	pkg := fd.GetPackage()
	fix := func(n string) string {
		if strings.HasPrefix(n, ".") {
			return n
		}
		parts := strings.Split(pkg, ".")
		for i := len(parts); i >= 0; i-- {
			cand := "." + strings.Join(append(append([]string{}, parts[:i]...), n), ".")
			if known[cand] {
				return cand
			}
		}
		panic("cannot resolve type " + n + " in " + fd.GetName())
	}
	for _, m := range fd.MessageType {
		for _, f := range m.Field {
			if f.TypeName != nil {
				f.TypeName = proto.String(fix(f.GetTypeName()))
				f.Type = descriptorpb.FieldDescriptorProto_TYPE_MESSAGE.Enum()
			}
		}
	}
	for _, s := range fd.Service {
		for _, m := range s.Method {
			m.InputType = proto.String(fix(m.GetInputType()))
			m.OutputType = proto.String(fix(m.GetOutputType()))
		}
	}
}

func addKnown(known map[string]bool, fd protoreflect.FileDescriptor) {
	var walk func(ms protoreflect.MessageDescriptors)
	walk = func(ms protoreflect.MessageDescriptors) {
		for i := 0; i < ms.Len(); i++ {
			known["."+string(ms.Get(i).FullName())] = true
			walk(ms.Get(i).Messages())
		}
	}
	walk(fd.Messages())
	for i := 0; i < fd.Enums().Len(); i++ {
		known["."+string(fd.Enums().Get(i).FullName())] = true
	}
}

func main() {
	repo, out := os.Args[1], os.Args[2]
	files := []string{
		"proto/snapshotpb/snapshot.proto",
		"proto/jobpb/job.proto",
		"proto/workerpb/worker.proto",
		"proto/e2epb/e2e.proto",
		"connectors/kafka/kafkapb/kafka.proto",
		"connectors/kinesis/kinesispb/kinesis.proto",
	}
	known := map[string]bool{}
	all := map[string]*descriptorpb.FileDescriptorProto{}
	var order []string
	var addDep func(path string)
	addDep = func(path string) {
		if _, ok := all[path]; ok {
			return
		}
		d, err := protoregistry.GlobalFiles.FindFileByPath(path)
		if err != nil {
			panic(fmt.Sprintf("dependency %s: %v", path, err))
		}
		for i := 0; i < d.Imports().Len(); i++ {
			addDep(d.Imports().Get(i).Path())
		}
		all[path] = protodesc.ToFileDescriptorProto(d)
		order = append(order, path)
		addKnown(known, d)
	}
	parsed := map[string]*descriptorpb.FileDescriptorProto{}
	for _, f := range files {
		src, err := os.ReadFile(filepath.Join(repo, f))
		if err != nil {
			panic(err)
		}
		fd := parseFile(f, string(src))
		parsed[f] = fd
		for _, m := range fd.MessageType {
			known["."+fd.GetPackage()+"."+m.GetName()] = true
		}
	}
	for _, f := range files {
		for _, dep := range parsed[f].Dependency {
			if _, ours := parsed[dep]; !ours {
				addDep(dep)
			}
		}
	}
	var addOurs func(f string)
	addOurs = func(f string) {
		if _, ok := all[f]; ok {
			return
		}
		for _, dep := range parsed[f].Dependency {
			if _, ours := parsed[dep]; ours {
				addOurs(dep)
			}
		}
		resolve(parsed[f], known)
		all[f] = parsed[f]
		order = append(order, f)
	}
	for _, f := range files {
		addOurs(f)
	}
	fds := &descriptorpb.FileDescriptorSet{}
	for _, p := range order {
		fds.File = append(fds.File, all[p])
	}
	if _, err := protodesc.NewFiles(fds); err != nil {
		panic(fmt.Sprintf("descriptor validation: %v", err))
	}
	req := &pluginpb.CodeGeneratorRequest{FileToGenerate: files, Parameter: proto.String("paths=source_relative"), ProtoFile: fds.File}
	gen, err := protogen.Options{}.New(req)
	if err != nil {
		panic(err)
	}
	for _, f := range gen.Files {
		if f.Generate {
			internal_gengo.GenerateFile(gen, f)
		}
	}
	write(out, gen.Response())
	if len(os.Args) > 3 {
		raw, _ := proto.Marshal(req)
		cmd := exec.Command(os.Args[3])
		cmd.Stdin = bytes.NewReader(raw)
		var so bytes.Buffer
		cmd.Stdout = &so
		cmd.Stderr = os.Stderr
		if err := cmd.Run(); err != nil {
			panic(err)
		}
		resp := &pluginpb.CodeGeneratorResponse{}
		if err := proto.Unmarshal(so.Bytes(), resp); err != nil {
			panic(err)
		}
		write(out, resp)
	}
}

func write(out string, resp *pluginpb.CodeGeneratorResponse) {
	if resp.Error != nil {
		panic(resp.GetError())
	}
	for _, f := range resp.File {
		p := filepath.Join(out, f.GetName())
		os.MkdirAll(filepath.Dir(p), 0o755)
		if err := os.WriteFile(p, []byte(f.GetContent()), 0o644); err != nil {
			panic(err)
		}
	}
}
