module veriftools

go 1.26.0

require (
	connectrpc.com/connect v1.18.1
	golang.org/x/tools v0.50.0
	google.golang.org/protobuf v1.36.3
	reduction.dev/reduction-protocol v0.0.5-0.20250502133230-e5852cf15cdc
)
