#!/bin/bash
# usage: ./check.sh <property> quick|thorough      run the check (rebuilds from /repo's current tree)
#        ./check.sh <property> --replay <file>     replay a violation file
# exit 0 held / 1 VIOLATION / 2 harness or build trouble
V=$(cd "$(dirname "$0")" && pwd); export VERIF_ROOT=$V
cd "$V" || exit 2
P=${1:?property}; T=${2:-${VERIF_TIER:-quick}}   # the tier named on the command line wins; VERIF_TIER is only the default
B=$V/.build/$P; mkdir -p "$V/.build"
if ! scripts/build.sh "$B" > "$B.buildlog" 2>&1; then
  mkdir -p "$B"; cat "$B.buildlog" >&2
  echo "HARNESS-TROUBLE property=$P: build failed" >&2
  exit 2
fi
if [ "$T" = "--replay" ]; then
  exec "$B/simrun" -prop "$P" -bin "$B/h.test" -replay "${3:?replay file}"
fi
exec "$B/simrun" -prop "$P" -tier "$T" -bin "$B/h.test"
