// Package simcore holds the parts of the simulator that do not depend on the
// repository: case / result / replay-file types, the shrinker and the
// known-findings file. Both the worker (test binary) and the driver use it.
package simcore

import (
	"encoding/json"
	"fmt"
	"os"
	"sort"
	"strings"
	"time"
)

// Op is one generated workload operation (kind + integer and string
// arguments); generic so that the shrinker can drop operations and shrink
// arguments without knowing the harness.
type Op struct {
	K string   `json:"k"`
	A []int64  `json:"a,omitempty"`
	S []string `json:"s,omitempty"`
}

func (o Op) Arg(i int) int64 {
	if i < len(o.A) {
		return o.A[i]
	}
	return 0
}
func (o Op) Str(i int) string {
	if i < len(o.S) {
		return o.S[i]
	}
	return ""
}

// Case is everything that is decided before the run starts: the resolved
// configuration (swarm parameters, enabled fault kinds, scheduling policy) and
// the workload.
type Case struct {
	Cfg map[string]int64 `json:"cfg"`
	Ops []Op             `json:"ops"`
}

func (c Case) Get(k string, def int64) int64 {
	if v, ok := c.Cfg[k]; ok {
		return v
	}
	return def
}

func (c Case) Clone() Case {
	n := Case{Cfg: map[string]int64{}, Ops: make([]Op, len(c.Ops))}
	for k, v := range c.Cfg {
		n.Cfg[k] = v
	}
	for i, o := range c.Ops {
		n.Ops[i] = Op{K: o.K, A: append([]int64(nil), o.A...), S: append([]string(nil), o.S...)}
	}
	return n
}

// Result of one simulated run.
type Result struct {
	Seed      uint64 `json:"seed"`
	Run       int    `json:"run"`
	Outcome   string `json:"outcome"` // done | idle | steps | crash
	Violation string `json:"violation,omitempty"`
	// Class is the diagnosis used for known-finding matching and for "same
	// violation" during shrinking, e.g. "C07/get-stale".
	Class   string `json:"class,omitempty"`
	LogHash uint64 `json:"log_hash"`
	LogLen  int    `json:"log_len"`

	Steps      int    `json:"steps"`
	Switches   int    `json:"switches"`
	ClockJumps int    `json:"clock_jumps"`
	SchedHash  uint64 `json:"sched_hash"`
	SimTimeNs  int64  `json:"sim_ns"`
	NChoices   int    `json:"n_choices"`
	WallUs     int64  `json:"wall_us"`

	Probes map[string]int `json:"probes,omitempty"`
	Faults map[string]int `json:"faults,omitempty"`
	State  string         `json:"state,omitempty"` // abstract end state (distinct-state measure)
	Ops    int            `json:"ops"`             // workload operations actually executed

	Replay string `json:"replay,omitempty"` // path of the (minimised) replay file, if a violation
	Note   string `json:"note,omitempty"`
}

// ReplayFile is what a violation is reported as; replaying it must reproduce
// the violation class and the event-log hash exactly.
type ReplayFile struct {
	Property  string  `json:"property"`
	Harness   string  `json:"harness"`
	Seed      uint64  `json:"seed"`
	Run       int     `json:"run"`
	Case      Case    `json:"case"`
	Choices   []int32 `json:"choices"`
	Class     string  `json:"class"`
	Violation string  `json:"violation"`
	LogHash   uint64  `json:"log_hash"`
	Minimised bool    `json:"minimised"`
	Original  struct {
		Ops     int `json:"ops"`
		Choices int `json:"choices"`
	} `json:"original"`
	Trace []string `json:"trace,omitempty"`
}

func (r *ReplayFile) Write(path string) error {
	b, err := json.MarshalIndent(r, "", " ")
	if err != nil {
		return err
	}
	return os.WriteFile(path, b, 0o644)
}

func ReadReplay(path string) (*ReplayFile, error) {
	b, err := os.ReadFile(path)
	if err != nil {
		return nil, err
	}
	r := &ReplayFile{}
	if err := json.Unmarshal(b, r); err != nil {
		return nil, err
	}
	return r, nil
}

// ---------------------------------------------------------------------------
// Shrinking

// ShrinkWall bounds the wall-clock time of one minimisation.
var ShrinkWall = 40 * time.Second

// Candidate is a (case, schedule) pair to evaluate.
type Candidate struct {
	Case    Case
	Choices []int32
}

// Shrink minimises cand while eval reports that the same violation class
// still occurs. eval returns (sameClass, choicesActuallyConsumed). It is
// budgeted by maxEvals.
func Shrink(cand Candidate, eval func(Candidate) (bool, []int32), maxEvals int) (Candidate, int) {
	evals := 0
	deadline := time.Now().Add(ShrinkWall)
	try := func(c Candidate) (bool, []int32) {
		if evals >= maxEvals || time.Now().After(deadline) {
			evals = maxEvals // budget exhausted: the best candidate so far is reported
			return false, nil
		}
		evals++
		return eval(c)
	}
	best := cand
	accept := func(c Candidate, used []int32) {
		if used != nil {
			c.Choices = used
		}
		best = c
	}

	for pass := 0; pass < 6 && evals < maxEvals; pass++ {
		improved := false

		// 1. drop chunks of workload operations (delta debugging, halving)
		for chunk := len(best.Case.Ops) / 2; chunk >= 1; chunk /= 2 {
			for start := 0; start+chunk <= len(best.Case.Ops); {
				c := Candidate{Case: best.Case.Clone(), Choices: best.Choices}
				c.Case.Ops = append(c.Case.Ops[:start:start], c.Case.Ops[start+chunk:]...)
				if ok, used := try(c); ok {
					accept(c, used)
					improved = true
				} else {
					start += chunk
				}
				if evals >= maxEvals {
					break
				}
			}
		}

		// 2. truncate the schedule (everything after is "0 = keep running / no fault")
		for cut := len(best.Choices) / 2; cut >= 1; cut /= 2 {
			if len(best.Choices) <= cut {
				continue
			}
			c := Candidate{Case: best.Case, Choices: append([]int32(nil), best.Choices[:len(best.Choices)-cut]...)}
			if ok, used := try(c); ok {
				accept(c, used)
				improved = true
				cut *= 2 // try the same cut again
			}
		}
		// strip trailing zeros (free)
		for len(best.Choices) > 0 && best.Choices[len(best.Choices)-1] == 0 {
			best.Choices = best.Choices[:len(best.Choices)-1]
		}

		// 3. zero chunks of the schedule (fewest context switches / faults first)
		for chunk := len(best.Choices) / 2; chunk >= 1; chunk /= 2 {
			for start := 0; start < len(best.Choices); start += chunk {
				end := min(start+chunk, len(best.Choices))
				allZero := true
				for _, v := range best.Choices[start:end] {
					if v != 0 {
						allZero = false
						break
					}
				}
				if allZero {
					continue
				}
				c := Candidate{Case: best.Case, Choices: append([]int32(nil), best.Choices...)}
				for i := start; i < end; i++ {
					c.Choices[i] = 0
				}
				if ok, _ := try(c); ok {
					best = c // keep alignment: do not replace by used vector here
					improved = true
				}
				if evals >= maxEvals {
					break
				}
			}
			if chunk > 64 && evals > maxEvals/2 {
				break
			}
		}

		// 4. delete chunks of the schedule (shifts later decisions; sometimes helps)
		for chunk := len(best.Choices) / 4; chunk >= 8; chunk /= 2 {
			for start := 0; start+chunk <= len(best.Choices); {
				c := Candidate{Case: best.Case, Choices: append(append([]int32(nil), best.Choices[:start]...), best.Choices[start+chunk:]...)}
				if ok, used := try(c); ok {
					accept(c, used)
					improved = true
				} else {
					start += chunk
				}
				if evals >= maxEvals {
					break
				}
			}
		}

		// 5. shrink integer arguments and configuration values toward zero
		for i := range best.Case.Ops {
			for j := range best.Case.Ops[i].A {
				v := best.Case.Ops[i].A[j]
				for _, nv := range []int64{0, v / 2, v - 1} {
					if nv == v || nv < 0 || evals >= maxEvals {
						continue
					}
					c := Candidate{Case: best.Case.Clone(), Choices: best.Choices}
					c.Case.Ops[i].A[j] = nv
					if ok, used := try(c); ok {
						accept(c, used)
						improved = true
						break
					}
				}
			}
		}

		if !improved {
			break
		}
	}
	return best, evals
}

// ---------------------------------------------------------------------------
// Known findings

// Finding is one line of /verif/known_findings.txt:
//
//	known: property=C07 class=<class> match=<substring of the violation text> [match=<another>...] :: description
//	fixed: property=C07 <commit> <what failed>
type Finding struct {
	Kind     string // known | fixed
	Property string
	Class    string
	Match    []string // every one must occur in the violation text
	Text     string
}

func LoadFindings(path string) ([]Finding, error) {
	b, err := os.ReadFile(path)
	if err != nil {
		if os.IsNotExist(err) {
			return nil, nil
		}
		return nil, err
	}
	var out []Finding
	for _, line := range strings.Split(string(b), "\n") {
		line = strings.TrimSpace(line)
		if line == "" || strings.HasPrefix(line, "#") {
			continue
		}
		f := Finding{Text: line}
		switch {
		case strings.HasPrefix(line, "known:"):
			f.Kind = "known"
		case strings.HasPrefix(line, "fixed:"):
			f.Kind = "fixed"
		default:
			return nil, fmt.Errorf("known_findings: bad line %q", line)
		}
		head := line
		if i := strings.Index(line, "::"); i >= 0 {
			head = line[:i]
		}
		for _, w := range strings.Fields(head) {
			if v, ok := strings.CutPrefix(w, "property="); ok {
				f.Property = v
			}
			if v, ok := strings.CutPrefix(w, "class="); ok {
				f.Class = v
			}
			if v, ok := strings.CutPrefix(w, "match="); ok {
				f.Match = append(f.Match, strings.ReplaceAll(v, "_", " "))
			}
		}
		out = append(out, f)
	}
	return out, nil
}

// MatchKnown returns the known finding (never a fixed one) that lists this
// violation, or nil.
func MatchKnown(fs []Finding, prop, class, violation string) *Finding {
	for i, f := range fs {
		if f.Kind != "known" || f.Property != prop {
			continue
		}
		if f.Class != "" && f.Class != class {
			continue
		}
		all := true
		for _, m := range f.Match {
			if !strings.Contains(violation, m) {
				all = false
			}
		}
		if !all {
			continue
		}
		return &fs[i]
	}
	return nil
}

func SortedKeys(m map[string]int) []string {
	ks := make([]string, 0, len(m))
	for k := range m {
		ks = append(ks, k)
	}
	sort.Strings(ks)
	return ks
}
