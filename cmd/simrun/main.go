// simrun is the batch driver: it fans a range of seeded runs out to worker
// processes (the harness test binary), aggregates results, triages violations
// against /verif/known_findings.txt, re-plays every reported violation in a
// fresh process, and writes the evidence file.
//
// Exit 0: the property held on everything explored (KNOWN-FINDING lines may be
// printed). Exit 1: "VIOLATION property=<id> replay=<path>". Exit 2: build /
// watchdog / non-reproducing replay / zero-hit mandatory probe - never a
// VIOLATION line.
package main

import (
	"bufio"
	"bytes"
	"encoding/json"
	"flag"
	"fmt"
	"os"
	"os/exec"
	"path/filepath"
	"sort"
	"strconv"
	"strings"
	"sync"
	"time"

	"verif/simcore"
)

type spec struct {
	Harness         string
	OneShot         bool
	QuickRuns       int
	QuickWallS      int
	ThoroughRuns    int
	ThoroughWallS   int
	Chunk           int
	MandatoryProbes []string // must be hit at least once in the thorough tier
	Technique, Rule string
	Real, Stub      []string
	Assumptions     []string
	ShrinkEvals     int
	// Extra: a second harness serving the same property (its runs follow the primary ones)
	ExtraHarness      string
	ExtraOneShot      bool
	ExtraQuickRuns    int
	ExtraThoroughRuns int
	ExtraChunk        int
}

var oneShotHarness = map[string]bool{"H-CLUSTER": true}

var dkvReal = []string{"dkv.DB", "dkv/memtable", "dkv/ziptree", "dkv/wal", "dkv/sst", "dkv/recovery", "dkv/bg", "dkv/mergesort", "dkv/fields", "dkv/bloom", "dkv/storage.Cursor", "util/ds", "util/sliceu"}
var dkvStub = []string{"storage.FileSystem -> SimDisk (publish-on-Save atomicity, fd-like reads; not LocalFilesystem/S3 syscalls)", "kv.DataOwnership -> AllDataOwnership / harness wrapper"}

var specs = map[string]spec{}

func init() {
	dkvSpec := func(q, t int, probes ...string) spec {
		return spec{Harness: "H-DKV", QuickRuns: q, QuickWallS: 50, ThoroughRuns: t, ThoroughWallS: 1200, Chunk: 250, Real: dkvReal, Stub: dkvStub, MandatoryProbes: probes,
			Rule: "each run = one seeded case (DKV sizing + compactor + rank-adversary + scheduling-policy swarm, 20-400 generated operations) executed under one seeded interleaving of the foreground client with the DB's flush/compaction/checkpoint goroutines; a run is non-trivial if it finished its workload with at least one context switch between goroutines and at least one SST flush; distinct = distinct hash of the released-task sequence"}
	}
	specs["C07"] = dkvSpec(12000, 600000)
	specs["C08"] = dkvSpec(8000, 400000, "checkpoint", "verify-restore", "switch")
	c09 := dkvSpec(2500, 100000, "gc", "retain", "verify-restore")
	c09.ExtraHarness, c09.ExtraQuickRuns, c09.ExtraThoroughRuns, c09.ExtraChunk = "H-OP", 1200, 60000, 20 // forced GC steps get slower as a process ages: short-lived workers
	c09.Rule += "; plus H-OP runs: 1-4 real operators rescaled M->N through Assembly.Deploy so that they share SST files, with compaction, retention updates and scheduled garbage-collection steps (table cleanups ask the neighbours through OperatorPartition / NeedsTable); oracle = reference handler state after the GC steps and independent read-back of the next checkpoints"
	specs["C09"] = c09
	specs["C18"] = dkvSpec(8000, 400000, "compaction-step", "flush-during-compaction")
	c18 := specs["C18"]
	c18.Rule += "; half of the runs drive sst.LevelList + sst.Compactor directly (swarm compactor settings, 2-6 levels, level-0 tables arriving between computing and applying a change set) and additionally check layout validity from the level document and the independently decoded table files (levels >= 1 sorted and non-overlapping, no newer sequence number beneath an older one)"
	specs["C18"] = c18
	specs["C10"] = spec{Harness: "H-TIMER", QuickRuns: 10000, QuickWallS: 50, ThoroughRuns: 500000, ThoroughWallS: 1200, Chunk: 250,
		MandatoryProbes: []string{"timers-fired", "restore", "repeated-set"},
		Real:            []string{"operator.TimerRegistry", "operator.TimerStore", "operator.KeyGroupPriorityQueue", "util/ds.PartitionedPriorityQueue", "util/ds.SortedCache", "util/ds.Heap", "util/binu", "partitioning.KeySpace", "dkv.DB (all of dkv/)"},
		Stub:            append([]string{"operator event loop: the harness task calls SetTimer/AdvanceWatermark sequentially as the loop does"}, dkvStub...),
		Rule:            "each run = one seeded case (timer cache 1 byte..unbounded, 1-8 key groups, 1-3 senders, DKV sizing swarm; 10-260 set/advance/checkpoint+restore operations incl. identical repeats and equal timestamps) under one seeded interleaving with the DB's background tasks; oracle = reference set of pending timers; non-trivial = finished with >= 1 context switch and timers fired; distinct = distinct released-task sequence"}
	storeSpec := func(q, t int, probes ...string) spec {
		return spec{Harness: "H-STORE", QuickRuns: q, QuickWallS: 50, ThoroughRuns: t, ThoroughWallS: 1200, Chunk: 500, MandatoryProbes: probes,
			Real: []string{"storage/snapshots.Store", "storage/snapshots.jobSnapshot", "savepoint artifact code", "generated snapshotpb/jobpb code"},
			Stub: []string{"locations.StorageLocation -> SimDisk location view (atomic per-call writes, WalkDir listing order)", "connectors.SourceSplitter (opaque blob)", "jobs.Job (harness issues the store calls)"},
			Rule: "each run = one seeded case (1-4 operators, 1-4 source runners, starting checkpoint id on a base64-alphabet boundary; 10-210 create/savepoint/ack(dup, wrong id, foreign)/finish/crash+restart operations) under one seeded interleaving of the caller with the store's asynchronous write/remove/notify goroutines; oracles = reference checkpoint state machine + independent decoding of every published/removed snapshot file; non-trivial = finished, >= 1 context switch, >= 1 checkpoint published; distinct = distinct released-task sequence"}
	}
	specs["C12"] = storeSpec(20000, 1000000, "published", "ack-duplicate", "ack-wrong-id", "ack-unknown-sender", "create-while-pending", "savepoint-folded")
	specs["C13"] = storeSpec(20000, 800000, "published", "removed-obsolete", "retained-notified")
	specs["C17"] = spec{Harness: "H-DKV-LOW", QuickRuns: 20000, QuickWallS: 50, ThoroughRuns: 1000000, ThoroughWallS: 1200, Chunk: 500,
		MandatoryProbes: []string{"split-tables", "truncate", "wal-verified", "wal-full"},
		Real:            []string{"sst.TableWriter (Write, WriteRun)", "sst.Table (Get, ScanPrefix, Document, NewTableFromDocument)", "sst.SearchIndex", "sst footer", "dkv/bloom", "dkv/fields", "storage.Cursor", "wal.Writer", "wal.Reader", "wal.Handle"},
		Stub:            []string{"storage.FileSystem -> SimDisk"},
		Assumptions:     []string{"weakest fit for this technique: the schedule/fault space is the restart between write and read (tables reopened from their JSON descriptor) and the Truncate-vs-writer interleaving of the WAL; the entry runs themselves are seeded input generation against a slice model"},
		Rule:            "each run = one seeded case: either a key-ordered entry run (0-4500 entries, sizes straddling index spacing 16 and target/1.5x target, tombstones, empty/binary keys and values) written with Write/WriteRun, reopened from its JSON descriptor after a simulated restart, and probed with present/absent/before-first/after-last/between lookups and prefix scans; or a WAL history of put/delete/cut/rotate by one task with Truncate by another under a seeded interleaving, saved and replayed from every legal marker; non-trivial = finished with >= 1 probe; distinct = distinct (schedule hash, abstract state)"}
	opSpec := func(q, t int, probes ...string) spec {
		return spec{Harness: "H-OP", QuickRuns: q, QuickWallS: 55, ThoroughRuns: t, ThoroughWallS: 1200, Chunk: 100, MandatoryProbes: probes,
			Real: []string{"workers/operator (Operator, checkpoint alignment, KeyedStateStore, TimerRegistry, TimerStore, OperatorPartition)", "batching.EventBatcher + clocks.SystemTimer", "dkv (all)", "partitioning", "jobs.Assembly.Deploy (rescale)", "util/ds, util/murmur"},
			Stub: []string{"source runners -> one sender task per (runner, operator) stream", "proto.Job -> stub recording acknowledgements", "proto.Handler -> reference handler (oracle)", "connect/HTTP transport -> direct calls of the same Handle* methods with CodeUnavailable retry", "storage -> SimDisk via the FileSystem factory hook", "clocks.Clock -> FrozenClock (registration poller only)"},
			Rule: "each run = one seeded case (1-4 senders, 1-4 operators, key-group count from the edge-biased swarm 1..65535, batching 1-5 / 0-5ms, DKV + timer-cache sizing swarm, per-sender scripted streams of keyed events with state-mutation scripts, watermarks and 1-3 checkpoint barriers, each sender's barrier at its own position) under one seeded interleaving of the concurrent HandleEvent calls, the event loop, batch time-outs, handler latency and the DB background tasks; oracles = reference handler (supplied state == shadow on every invocation, watermark, timers) + independent read-back of every acknowledged checkpoint; non-trivial = finished, >= 1 context switch, >= 1 checkpoint verified; distinct = distinct released-task sequence"}
	}
	specs["C02"] = opSpec(3000, 150000, "operator-ack", "checkpoint-verified")
	specs["C03"] = opSpec(3000, 150000, "checkpoint-verified")
	c06 := opSpec(1500, 60000, "checkpoint-verified", "operator-killed", "operator-redeployed-in-place")
	c06.Chunk = 20
	specs["C06"] = c06
	c11 := opSpec(3000, 150000, "timer-expired", "checkpoint-verified")
	c11.ExtraHarness, c11.ExtraOneShot, c11.ExtraQuickRuns, c11.ExtraThoroughRuns = "H-CLUSTER", true, 250, 8000
	c11.Rule += "; plus H-CLUSTER runs (part a: every source runner's watermark per stream is monotone and stays below the largest timestamp it has keyed)"
	specs["C11"] = c11
	cluSpec := func(q, t int, probes ...string) spec {
		return spec{Harness: "H-CLUSTER", OneShot: true, QuickRuns: q, QuickWallS: 70, ThoroughRuns: t, ThoroughWallS: 1500, MandatoryProbes: probes, ShrinkEvals: 120,
			Real: []string{"jobs.Job / Registry / LivenessTracker / Assembly", "storage/snapshots.Store", "workers/sourcerunner", "workers/operator", "workers/wmark", "connectors.ReadSourceChannel", "batching", "partitioning", "dkv (all)", "clocks.SystemClock / SystemTimer on the fake clock", "generated protobuf code"},
			Stub: []string{"connect/HTTP transport -> SimNet (same Handle* methods; 503 retry, transport errors, kill, partition)", "workers.Worker -> identical composition of SourceRunner + Operator", "source connector -> SimSource", "user handler -> self-verifying reference handler", "storage -> SimDisk", "sinks -> discard"},
			Rule: "each run = one OS process = one seeded case (1-3 workers + standbys, key-group swarm, 1-5 splits x 4-64 records, batching, DKV sizing, handler latency, paced source spanning several one-minute checkpoint intervals, fault plan) under one seeded interleaving of every goroutine of the job and the workers, RPC deliveries and clock advances; oracles = self-verifying keyed state on every handler invocation, final checkpoint read back independently, per-stream delivery log, assignment / deploy logs; non-trivial = reached the final verified checkpoint; distinct = distinct released-task sequence"}
	}
	specs["C01"] = cluSpec(500, 20000, "worker-killed", "final-state-verified", "job-checkpoint-published")
	c04 := cluSpec(500, 20000, "final-state-verified", "job-checkpoint-published", "child-shard-handed-out")
	c04.Real = append(c04.Real, "connectors/kinesis SourceSplitter / SplitTracker / SourceReader + AWS SDK Kinesis client (Kinesis mode, 1 of 4 runs)")
	c04.Stub = append(c04.Stub, "Kinesis service -> the repository's kinesisfake served in-process (hook K5)")
	specs["C04"] = c04
	specs["C05"] = cluSpec(500, 20000, "final-state-verified")
	specs["C14"] = cluSpec(300, 10000, "final-state-verified")
	specs["C15"] = cluSpec(400, 15000, "final-state-verified")
	c16 := cluSpec(1500, 40000, "final-state-verified", "child-shard-handed-out", "shard-finished", "positions-restored-from-checkpoint")
	c16.QuickWallS, c16.ThoroughWallS = 150, 3000
	c16.Real = append(c16.Real, "connectors/kinesis SourceSplitter / SplitTracker / SourceReader + AWS SDK Kinesis client (Kinesis mode, 2 of 3 runs)")
	c16.Stub = append(c16.Stub, "Kinesis service -> the repository's kinesisfake served in-process (hook K5), seeded PutRecords/SplitShard/MergeShards history; reads paced by a wrapper")
	c16.Rule += "; in Kinesis mode the input is a seeded reshard history (1-3 initial shards, 0-8 splits/merges, partly applied during the run) and every hand-out of the splitter is checked against the shard lineage and the exact barrier cut of the restored checkpoint"
	specs["C16"] = c16
	specs["C20"] = spec{Harness: "H-BATCH", QuickRuns: 30000, QuickWallS: 50, ThoroughRuns: 1500000, ThoroughWallS: 1200, Chunk: 500,
		MandatoryProbes: []string{"flush-size", "flush-timeout", "flush-explicit", "stale-token", "fetch"},
		Real:            []string{"batching.EventBatcher", "batching.ReorderFetcher", "batching.ReorderBuffer", "clocks.SystemTimer on the bubble's fake clock"},
		Stub:            []string{"fetch function (identity; latency = scheduler-chosen number of yields)", "consumer of Output (task with back-pressure)"},
		Rule:            "each run = one seeded case (batch size 1-5, delay 0-20ms, buffer 1-4, fetch latency; 3-60 add/flush/sleep/stale-token operations; EventBatcher alone or behind a ReorderFetcher) under one seeded interleaving of adder, time-out flusher, fetch goroutines, consumer and clock advances; non-trivial = finished with >= 1 context switch and >= 1 probe (a flush or fetch happened); distinct = distinct hash of the released-task sequence"}
}

type agg struct {
	mu         sync.Mutex
	results    int
	outcomes   map[string]int
	probes     map[string]int
	faults     map[string]int
	sched      map[uint64]bool
	nontrivial map[uint64]bool
	states     map[string]bool
	simNs      int64
	steps      int64
	switches   int64
	choices    int64
	ops        int64
	viol       []simcore.Result
	nondet     []simcore.Result
	samples    []json.RawMessage
}

func main() {
	prop := flag.String("prop", "", "property id")
	tier := flag.String("tier", "quick", "quick|thorough")
	bin := flag.String("bin", "", "harness test binary")
	procs := flag.Int("procs", 16, "worker processes")
	replay := flag.String("replay", "", "replay one file and report")
	runsOverride := flag.Int("runs", 0, "override number of runs")
	wallOverride := flag.Int("wall", 0, "override wall budget (s)")
	noEvidence := flag.Bool("no-evidence", false, "do not write the evidence file")
	flag.Parse()
	sp, ok := specs[*prop]
	if !ok {
		fmt.Fprintf(os.Stderr, "simrun: unknown property %q\n", *prop)
		os.Exit(2)
	}
	if *replay != "" {
		os.Exit(doReplay(*bin, *prop, *replay, true))
	}
	seed := uint64(1)
	if *tier == "thorough" {
		seed = 2
	}
	if v := os.Getenv("VERIF_SEED"); v != "" {
		if s, err := strconv.ParseUint(v, 10, 64); err == nil {
			seed = s
		}
	}
	runs, wall := sp.QuickRuns, sp.QuickWallS
	if *tier == "thorough" {
		runs, wall = sp.ThoroughRuns, sp.ThoroughWallS
	}
	if *runsOverride > 0 {
		runs = *runsOverride
	}
	if *wallOverride > 0 {
		wall = *wallOverride
	}
	chunk := sp.Chunk
	if sp.OneShot {
		chunk = 1
	}
	if chunk == 0 {
		chunk = 100
	}
	primaryRuns := runs
	if sp.ExtraHarness != "" && *runsOverride == 0 {
		if *tier == "thorough" {
			runs += sp.ExtraThoroughRuns
		} else {
			runs += sp.ExtraQuickRuns
		}
	}
	outDir := filepath.Join(root(), "out", *prop)
	os.RemoveAll(outDir)
	os.MkdirAll(outDir, 0o755)

	a := &agg{outcomes: map[string]int{}, probes: map[string]int{}, faults: map[string]int{}, sched: map[uint64]bool{}, nontrivial: map[uint64]bool{}, states: map[string]bool{}}
	t0 := time.Now()
	deadline := t0.Add(time.Duration(wall) * time.Second)
	next := 0
	var nmu sync.Mutex
	var wg sync.WaitGroup
	trouble := ""
	var tmu sync.Mutex
	for p := 0; p < *procs; p++ {
		wg.Add(1)
		go func() {
			defer wg.Done()
			for {
				nmu.Lock()
				if next >= runs || time.Now().After(deadline) {
					nmu.Unlock()
					return
				}
				from := next
				to := min(next+chunk, runs)
				harness := sp.Harness
				if from < primaryRuns {
					to = min(to, primaryRuns)
				} else {
					harness = sp.ExtraHarness
					if sp.ExtraOneShot {
						to = from + 1
					} else if sp.ExtraChunk > 0 {
						to = min(from+sp.ExtraChunk, runs)
					}
				}
				next = to
				nmu.Unlock()
				tmu.Lock()
				bad := trouble != ""
				tmu.Unlock()
				if bad {
					return
				}
				if msg := runWorker(*bin, *prop, *tier, harness, seed, from, to, a, sp); msg != "" {
					tmu.Lock()
					if trouble == "" {
						trouble = msg
					}
					tmu.Unlock()
					return
				}
			}
		}()
	}
	wg.Wait()
	wallS := time.Since(t0).Seconds()

	if trouble != "" {
		fmt.Fprintf(os.Stderr, "HARNESS-TROUBLE property=%s: %s\n", *prop, trouble)
		os.Exit(2)
	}
	if len(a.nondet) > 0 {
		r := a.nondet[0]
		fmt.Fprintf(os.Stderr, "HARNESS-TROUBLE property=%s: run %d seed %d did not replay deterministically: %s\n", *prop, r.Run, r.Seed, r.Note)
		os.Exit(2)
	}

	// triage
	findings, err := simcore.LoadFindings(filepath.Join(root(), "known_findings.txt"))
	if err != nil {
		fmt.Fprintln(os.Stderr, err)
		os.Exit(2)
	}
	knownHit := map[string]int{}
	var unknown []simcore.Result
	for _, r := range a.viol {
		if f := simcore.MatchKnown(findings, *prop, r.Class, r.Violation); f != nil {
			knownHit[f.Text]++
		} else {
			unknown = append(unknown, r)
		}
	}
	var kf []string
	for k := range knownHit {
		kf = append(kf, k)
	}
	sort.Strings(kf)
	for _, k := range kf {
		fmt.Printf("KNOWN-FINDING: %s (hit by %d runs)\n", strings.TrimSpace(strings.TrimPrefix(k, "known:")), knownHit[k])
	}
	exit := 0
	// one report per class, minimised + replayed in a fresh process
	byClass := map[string][]simcore.Result{}
	var classes []string
	for _, r := range unknown {
		if len(byClass[r.Class]) == 0 {
			classes = append(classes, r.Class)
		}
		byClass[r.Class] = append(byClass[r.Class], r)
	}
	sort.Strings(classes)
	// minimise one representative per class (at most 6), in parallel, each under a wall budget
	{
		var swg sync.WaitGroup
		for i, cl := range classes {
			if i >= 6 {
				break
			}
			rs := byClass[cl]
			sort.Slice(rs, func(i, j int) bool { return rs[i].NChoices < rs[j].NChoices })
			if rf, err := simcore.ReadReplay(rs[0].Replay); err == nil && !rf.Minimised {
				swg.Add(1)
				go func(path string) {
					defer swg.Done()
					shrinkExternal(*bin, *prop, path, sp)
				}(rs[0].Replay)
			}
		}
		swg.Wait()
	}
	reported := 0
	for _, cl := range classes {
		rs := byClass[cl]
		// prefer a run that the worker already minimised, else the smallest
		sort.Slice(rs, func(i, j int) bool { return rs[i].NChoices < rs[j].NChoices })
		best := rs[0]
		for _, r := range rs {
			if rf, err := simcore.ReadReplay(r.Replay); err == nil && rf.Minimised {
				best = r
				break
			}
		}
		if reported >= 6 {
			fmt.Printf("  (further class %s: %d runs, e.g. %s)\n", cl, len(rs), best.Replay)
			continue
		}
		if rf, err := simcore.ReadReplay(best.Replay); err == nil && !rf.Minimised {
			shrinkExternal(*bin, *prop, best.Replay, sp)
		}
		if code := doReplay(*bin, *prop, best.Replay, false); code == 2 {
			// A process death seen in a long-lived batch worker can depend on that process's
			// state (an allocation of a garbage length fails only when the heap is already
			// large). The fresh-process replay decides: when it shows a violation of another
			// class, that is what is reported (with a file that replays exactly); when it shows
			// none, the death cannot be attributed and the check reports trouble.
			ok := false
			if best.Outcome == "crash" {
				if res, found := replayResult(*bin, *prop, best.Replay); found && res.Class != "" && res.Violation != "" {
					if _, separately := byClass[res.Class]; separately && res.Class != cl {
						fmt.Printf("  (class %s: %d worker deaths, e.g. run %d; the same case in a fresh process gives class %s, reported on its own)\n", cl, len(rs), best.Run, res.Class)
						continue
					}
					if rf, err := simcore.ReadReplay(best.Replay); err == nil {
						rf.Class, rf.Violation, rf.LogHash = res.Class, res.Violation, res.LogHash
						rf.Write(best.Replay)
						shrinkExternal(*bin, *prop, best.Replay, sp)
						ok = doReplay(*bin, *prop, best.Replay, false) == 1
						cl = rf.Class
					}
				}
			}
			if !ok {
				fmt.Fprintf(os.Stderr, "HARNESS-TROUBLE property=%s: replay file %s does not reproduce\n", *prop, best.Replay)
				os.Exit(2)
			}
		}
		rf, _ := simcore.ReadReplay(best.Replay)
		fmt.Printf("VIOLATION property=%s replay=%s\n", *prop, best.Replay)
		fmt.Printf("  class=%s runs=%d seed=%d run=%d ops=%d choices=%d (from %d ops / %d choices)\n  %s\n", cl, len(rs), best.Seed, best.Run, len(rf.Case.Ops), len(rf.Choices), rf.Original.Ops, rf.Original.Choices, rf.Violation)
		reported++
		exit = 1
	}

	// mandatory probes (thorough only): a probe at zero means the workload or
	// fault mix never reached the situation the property is about
	if exit == 0 && *tier == "thorough" {
		for _, p := range sp.MandatoryProbes {
			if a.probes[p] == 0 && a.faults[p] == 0 { // a fault kind that fired counts as reached
				fmt.Fprintf(os.Stderr, "HARNESS-TROUBLE property=%s: mandatory probe %q was never hit\n", *prop, p)
				exit = 2
			}
		}
	}

	if !*noEvidence {
		writeEvidence(*prop, *tier, seed, sp, a, wallS, len(unknown), knownHit, runs)
	}
	fmt.Printf("simrun: property=%s tier=%s seed=%d runs=%d wall=%.1fs outcomes=%v violations=%d known=%d distinct-schedules=%d\n", *prop, *tier, seed, a.results, wallS, a.outcomes, len(unknown), len(a.viol)-len(unknown), len(a.sched))
	os.Exit(exit)
}

// runSeedOf must equal sim.RunSeed.
func runSeedOf(base uint64, run int) uint64 {
	x := base*0x9E3779B97F4A7C15 + uint64(run)*0xBF58476D1CE4E5B9 + 0x94D049BB133111EB
	x ^= x >> 30
	x *= 0xBF58476D1CE4E5B9
	x ^= x >> 27
	x *= 0x94D049BB133111EB
	x ^= x >> 31
	return x
}

// root is the verification tree the driver works in (VERIF_ROOT, default /verif).
func root() string {
	if r := os.Getenv("VERIF_ROOT"); r != "" {
		return r
	}
	return "/verif"
}

func workerCmd(bin, prop string, env ...string) *exec.Cmd {
	// address-space limit per worker: a run that drives the engine into a runaway
	// allocation kills one worker (reported as harness trouble), not the machine
	cmd := exec.Command("/bin/bash", "-c", "ulimit -v 6000000; exec \"$0\" \"$@\"", bin, "-test.run", "^TestWorker$", "-test.timeout", "0", "-test.count", "1")
	cmd.Env = append(os.Environ(), "GODEBUG=asyncpreemptoff=1", "GOMAXPROCS=1", "VERIF_PROP="+prop, "VERIF_OUT="+filepath.Join(root(), "out"))
	cmd.Env = append(cmd.Env, env...)
	return cmd
}

// runWorker runs one chunk; returns a non-empty message on harness trouble.
func runWorker(bin, prop, tier, harness string, seed uint64, from, to int, a *agg, sp spec) string {
	cmd := workerCmd(bin, prop, "VERIF_HARNESS="+harness, "VERIF_TIER="+tier, fmt.Sprintf("VERIF_SEED=%d", seed), fmt.Sprintf("VERIF_FROM=%d", from), fmt.Sprintf("VERIF_TO=%d", to), "VERIF_MODE=batch", "VERIF_SHRINK_MAX=0")
	var stderr bytes.Buffer
	cmd.Stderr = &stderr
	out, err := cmd.StdoutPipe()
	if err != nil {
		return err.Error()
	}
	if err := cmd.Start(); err != nil {
		return err.Error()
	}
	sc := bufio.NewScanner(out)
	sc.Buffer(make([]byte, 1<<20), 1<<26)
	got := 0
	for sc.Scan() {
		line := sc.Text()
		if !strings.HasPrefix(line, "R ") {
			continue
		}
		var r simcore.Result
		if err := json.Unmarshal([]byte(line[2:]), &r); err != nil {
			continue
		}
		got++
		a.add(r, line[2:])
	}
	err = cmd.Wait()
	if err != nil || got < to-from {
		// did it die inside the engine? then that run is a violation and the rest of the chunk is re-run
		if class, msg, ok := classifyCrash(prop, stderr.String()); ok {
			run := from + got
			if k := strings.LastIndex(stderr.String(), "RUNSTART "); k >= 0 {
				fmt.Sscanf(stderr.String()[k:], "RUNSTART %d", &run)
			}
			if cs, ok := genCase(bin, prop, tier, harness, seed, run); ok {
				rs := runSeedOf(seed, run)
				rf := &simcore.ReplayFile{Property: prop, Harness: harness, Seed: rs, Run: run, Case: cs, Choices: nil, Class: class, Violation: msg}
				rf.Original.Ops = len(cs.Ops)
				p := filepath.Join(root(), "out", prop, fmt.Sprintf("replay-%d-%d.json", rs, run))
				rf.Write(p)
				res := simcore.Result{Seed: rs, Run: run, Outcome: "crash", Violation: msg, Class: class, Replay: p, NChoices: 1 << 30}
				b, _ := json.Marshal(res)
				a.add(res, string(b))
				if run+1 < to {
					return runWorker(bin, prop, tier, harness, seed, run+1, to, a, sp)
				}
				return ""
			}
		}
		// a run that was still progressing when its wall limit expired is inconclusive (like
		// a step-capped run); the rest of the chunk is re-run. Many of them is trouble.
		if k := strings.LastIndex(stderr.String(), "WALLLIMIT run="); k >= 0 {
			run := from + got
			fmt.Sscanf(stderr.String()[k:], "WALLLIMIT run=%d", &run)
			res := simcore.Result{Seed: runSeedOf(seed, run), Run: run, Outcome: "wall"}
			b, _ := json.Marshal(res)
			a.add(res, string(b))
			if n := a.countOutcome("wall"); n > 20 {
				return fmt.Sprintf("%d runs exceeded their wall limit while still progressing (last: run %d)", n, run)
			}
			if run+1 < to {
				return runWorker(bin, prop, tier, harness, seed, run+1, to, a, sp)
			}
			return ""
		}
		tail := stderr.String()
		for _, marker := range []string{"fatal error:", "panic:", "WATCHDOG", "runtime: out of memory"} {
			if i := strings.Index(tail, marker); i >= 0 {
				j := strings.LastIndex(tail[:i], "RUNSTART")
				if j < 0 {
					j = i
				}
				tail = tail[j:]
				if len(tail) > 5000 {
					tail = tail[:5000]
				}
				break
			}
		}
		if len(tail) > 6000 {
			tail = tail[len(tail)-6000:]
		}
		return fmt.Sprintf("worker for runs [%d,%d) ended abnormally (%v, %d/%d results); stderr tail:\n%s", from, to, err, got, to-from, tail)
	}
	return ""
}

// classifyCrash recognises a worker that died inside repository code (fatal
// runtime error or unrecovered panic with a reduction.dev/reduction frame on the
// crashing goroutine's stack). Such a death is an engine crash on valid input,
// reported as a violation with a seed-only replay file; anything else is
// harness trouble.
func classifyCrash(prop, stderr string) (class, msg string, ok bool) {
	i := strings.Index(stderr, "fatal error:")
	if j := strings.Index(stderr, "\npanic:"); i < 0 || (j >= 0 && j < i) {
		if j >= 0 {
			i = j + 1
		}
	}
	if i < 0 {
		return "", "", false
	}
	rest := stderr[i:]
	first := rest
	if k := strings.Index(first, "\n"); k >= 0 {
		first = first[:k]
	}
	// first goroutine block after the message = the crashing goroutine
	blk := rest
	if k := strings.Index(blk, "\ngoroutine "); k >= 0 {
		blk = blk[k+1:]
		if e := strings.Index(blk, "\n\n"); e >= 0 {
			blk = blk[:e]
		}
	}
	for _, l := range strings.Split(blk, "\n") {
		if strings.HasPrefix(l, "reduction.dev/reduction/") && !strings.Contains(l, "verifsimrt") {
			fn := l
			if k := strings.Index(fn, "("); k > 0 {
				fn = fn[:k]
			}
			fn = strings.TrimPrefix(fn, "reduction.dev/reduction/")
			// same class as a recovered panic: in a fresh process the same defect
			// usually surfaces as a panic (e.g. the garbage-sized allocation succeeds
			// and the read behind it fails)
			return prop + "/panic", fmt.Sprintf("%s/panic process died: %s @ %s", prop, first, fn), true
		}
	}
	return "", "", false
}

func genCase(bin, prop, tier, harness string, seed uint64, run int) (simcore.Case, bool) {
	cmd := workerCmd(bin, prop, "VERIF_HARNESS="+harness, "VERIF_TIER="+tier, fmt.Sprintf("VERIF_SEED=%d", seed), fmt.Sprintf("VERIF_FROM=%d", run), fmt.Sprintf("VERIF_TO=%d", run+1), "VERIF_MODE=gen")
	out, _ := cmd.Output()
	for _, line := range strings.Split(string(out), "\n") {
		if strings.HasPrefix(line, "{") {
			var cs simcore.Case
			if json.Unmarshal([]byte(line), &cs) == nil {
				return cs, true
			}
		}
	}
	return simcore.Case{}, false
}

func (a *agg) countOutcome(o string) int {
	a.mu.Lock()
	defer a.mu.Unlock()
	return a.outcomes[o]
}

func (a *agg) add(r simcore.Result, raw string) {
	a.mu.Lock()
	defer a.mu.Unlock()
	a.results++
	a.outcomes[r.Outcome]++
	for k, v := range r.Probes {
		a.probes[k] += v
	}
	for k, v := range r.Faults {
		a.faults[k] += v
	}
	a.sched[r.SchedHash] = true
	if r.Outcome == "done" && r.Switches > 0 && nonTrivial(r) {
		a.nontrivial[r.SchedHash] = true
	}
	if r.State != "" {
		for _, s := range strings.Split(r.State, "|") {
			a.states[s] = true
		}
	}
	a.simNs += r.SimTimeNs
	a.steps += int64(r.Steps)
	a.switches += int64(r.Switches)
	a.choices += int64(r.NChoices)
	a.ops += int64(r.Ops)
	if r.Note != "" && strings.HasPrefix(r.Note, "NONDETERMINISTIC") {
		a.nondet = append(a.nondet, r)
	} else if r.Violation != "" {
		a.viol = append(a.viol, r)
	}
	if len(a.samples) < 3 && r.Outcome == "done" {
		a.samples = append(a.samples, json.RawMessage(raw))
	}
}

// nonTrivial: the run reached background activity (a state other than "one
// memtable, no tables") or exercised at least one probe / fault.
func nonTrivial(r simcore.Result) bool {
	if len(r.Probes) > 0 || len(r.Faults) > 0 {
		return true
	}
	for _, s := range strings.Split(r.State, "|") {
		if s != "" && s != "m1,0,0,0,0,0,0" {
			return true
		}
	}
	return r.State == "" && r.Steps > 20
}

func doReplay(bin, prop, path string, verbose bool) int {
	rf, err := simcore.ReadReplay(path)
	if err != nil {
		fmt.Fprintln(os.Stderr, err)
		return 2
	}
	cmd := workerCmd(bin, prop, "VERIF_MODE=replay", "VERIF_REPLAY="+path)
	if verbose {
		cmd.Env = append(cmd.Env, "VERIF_TRACE=1")
	}
	var stderr bytes.Buffer
	cmd.Stderr = &stderr
	out, err := cmd.Output()
	var res simcore.Result
	found := false
	for _, line := range strings.Split(string(out), "\n") {
		if strings.HasPrefix(line, "R ") {
			if json.Unmarshal([]byte(line[2:]), &res) == nil {
				found = true
			}
		} else if verbose && strings.HasPrefix(line, "T ") {
			fmt.Println(line[2:])
		}
	}
	if !found {
		if class, msg, ok := classifyCrash(prop, stderr.String()); ok {
			if verbose {
				fmt.Printf("replay: %s\n", msg)
			}
			if class == rf.Class {
				if verbose {
					fmt.Printf("VIOLATION property=%s replay=%s\n", prop, path)
				}
				return 1
			}
		}
		fmt.Fprintf(os.Stderr, "replay produced no result (%v): %.3000s\n", err, stderr.String())
		return 2
	}
	if verbose {
		fmt.Printf("replay: class=%q log_hash=%x (file: class=%q log_hash=%x)\n%s\n", res.Class, res.LogHash, rf.Class, rf.LogHash, res.Violation)
	}
	if res.Class != rf.Class || (res.LogHash != rf.LogHash && rf.LogHash != 0) {
		if verbose {
			fmt.Println("replay: MISMATCH")
		}
		return 2
	}
	if verbose {
		fmt.Printf("VIOLATION property=%s replay=%s\n", prop, path)
	}
	return 1
}

// replayResult runs a replay file in a fresh worker process and returns the result line it printed.
func replayResult(bin, prop, path string) (simcore.Result, bool) {
	cmd := workerCmd(bin, prop, "VERIF_MODE=replay", "VERIF_REPLAY="+path)
	out, _ := cmd.Output()
	var res simcore.Result
	found := false
	for _, line := range strings.Split(string(out), "\n") {
		if strings.HasPrefix(line, "R ") && json.Unmarshal([]byte(line[2:]), &res) == nil {
			found = true
		}
	}
	return res, found
}

// shrinkExternal minimises a replay file with the worker's shrink mode (one
// process evaluating many candidates) or, for one-shot harnesses, by spawning
// one process per candidate.
func shrinkExternal(bin, prop, path string, sp spec) {
	evals := sp.ShrinkEvals
	if evals == 0 {
		evals = 400
	}
	oneShot := sp.OneShot
	if rfh, err := simcore.ReadReplay(path); err == nil {
		oneShot = oneShotHarness[rfh.Harness]
	}
	if !oneShot {
		cmd := workerCmd(bin, prop, "VERIF_MODE=shrink", "VERIF_REPLAY="+path, fmt.Sprintf("VERIF_SHRINK_EVALS=%d", evals))
		cmd.Run()
		return
	}
	rf, err := simcore.ReadReplay(path)
	if err != nil {
		return
	}
	tmp := path + ".cand"
	defer os.Remove(tmp)
	var lastHash uint64
	var lastViolation string
	eval := func(c simcore.Candidate) (bool, []int32) {
		cf := *rf
		cf.Case, cf.Choices, cf.Trace = c.Case, c.Choices, nil
		if cf.Write(tmp) != nil {
			return false, nil
		}
		cmd := workerCmd(bin, prop, "VERIF_MODE=replay", "VERIF_REPLAY="+tmp)
		out, _ := cmd.Output()
		for _, line := range strings.Split(string(out), "\n") {
			if strings.HasPrefix(line, "R ") {
				var res simcore.Result
				if json.Unmarshal([]byte(line[2:]), &res) == nil && res.Class == rf.Class {
					lastHash, lastViolation = res.LogHash, res.Violation
					return true, nil
				}
			}
		}
		return false, nil
	}
	best, _ := simcore.Shrink(simcore.Candidate{Case: rf.Case, Choices: rf.Choices}, eval, evals)
	if ok, _ := eval(best); ok {
		rf.Case, rf.Choices, rf.LogHash, rf.Violation, rf.Minimised, rf.Trace = best.Case, best.Choices, lastHash, lastViolation, true, nil
		rf.Write(path)
	}
}

func writeEvidence(prop, tier string, seed uint64, sp spec, a *agg, wallS float64, violations int, knownHit map[string]int, planned int) {
	cov := map[string]any{
		"evaluations":              a.results,
		"distinct_nontrivial":      len(a.nontrivial),
		"rule":                     sp.Rule,
		"samples":                  a.samples,
		"planned_runs":             planned,
		"runs_per_hour":            int(float64(a.results) / wallS * 3600),
		"simulated_time_s":         float64(a.simNs) / 1e9,
		"scheduler_steps":          a.steps,
		"context_switches":         a.switches,
		"choices_drawn":            a.choices,
		"workload_ops_run":         a.ops,
		"distinct_schedules":       len(a.sched),
		"distinct_abstract_states": len(a.states),
		"outcomes":                 a.outcomes,
		"faults_fired":             a.faults,
		"probes_hit":               a.probes,
		"components_real":          sp.Real,
		"components_stub":          sp.Stub,
		"known_findings_hit":       knownHit,
		"harness":                  strings.TrimSuffix(sp.Harness+" + "+sp.ExtraHarness, " + "),
	}
	ev := map[string]any{
		"property_id": prop,
		"tier":        tier,
		"seed":        seed,
		"level":       "exploration",
		"coverage":    cov,
		"assumptions": append([]string{
			"one P, cooperative switching at instrumented points (send/select/lock/go): sequentially consistent executions only; weak-memory effects of data races are not explored",
			"SimDisk models publish atomicity and listing order of the real back ends, not their system calls",
			"sampling, not enumeration: a clean batch is evidence, not proof",
		}, sp.Assumptions...),
		"wall_s":     wallS,
		"violations": violations,
	}
	b, _ := json.MarshalIndent(ev, "", " ")
	os.MkdirAll(filepath.Join(root(), "evidence"), 0o755)
	if err := os.WriteFile(filepath.Join(root(), "evidence", prop+".json"), b, 0o644); err != nil {
		fmt.Fprintln(os.Stderr, err)
		os.Exit(2)
	}
}
