#!/bin/bash
# usage: scripts/repo_tests.sh [repo-dir] <go package patterns...>
# Runs the repository's own tests of packages that need the generated protobuf code (not part of the
# pinned offline suite): generates the code into a scratch dir and injects it with -overlay. Nothing
# is written to the repository. Used to confirm that fix: commits keep the repo's own tests passing.
export GOFLAGS=-mod=mod GOPROXY=off GOSUMDB=off GOTOOLCHAIN=local
V=$(cd "$(dirname "$0")/.." && pwd); R=/repo
if [ -d "$1" ]; then R=$1; shift; fi
G=$(mktemp -d /var/tmp/repotests.XXXX); trap 'rm -rf $G' EXIT
TB=$V/.build/tools
$TB/protogen $R $G/gen $TB/protoc-gen-connect-go >/dev/null || exit 2
python3 - $R $G <<'PY'
import json,os,sys
R,G=sys.argv[1],sys.argv[2]
rep={}
for d,_,fs in os.walk(G+'/gen'):
    for f in fs:
        p=os.path.join(d,f); rep[os.path.join(R,os.path.relpath(p,G+'/gen'))]=p
json.dump({"Replace":rep},open(G+'/overlay.json','w'))
PY
cd $R && go1.26.8 test -count=1 -vet=off -overlay $G/overlay.json "$@"
