#!/usr/bin/env python3
"""Writes seeded/rev-<sha>/ entries from a regression-wave log (optional arg) and regenerates seeded/INDEX.md
from every seeded/*/meta.json."""
import json, os, re, subprocess, sys, glob
V=os.path.dirname(os.path.dirname(os.path.abspath(__file__)))
fixed={}
for l in open(V+'/known_findings.txt'):
    if l.startswith('fixed:'):
        _,pk,sha,rest=l.split(' ',3)
        fixed[sha]=(pk.split('=')[1],rest.strip())
if len(sys.argv)>1:
    res={}
    for logf in sys.argv[1:]:
        for l in open(logf,errors='replace'):
            m=re.match(r'(?:rev[a-z]*-)([0-9a-f]{7})[: ]\s*(.*)',l)
            if not m: continue
            sha,rest=m.groups()
            if sha not in fixed: continue
            r=res.setdefault(sha,[])
            if rest.startswith('PATCH-DOES-NOT-APPLY'): r.append('does not apply to HEAD on its own (a later fix touches the same lines)')
            elif rest.startswith('BUILD-FAILED'): r.append('does not build on its own (a later fix depends on it)')
            else:
                m2=re.match(r'(C\d\d) rc=(\d+) (\d+)s :: (.*)',rest)
                if not m2: continue
                prop,rc,t,tail=m2.groups()
                cl=re.search(r'class=(\S+) runs=(\d+)',tail)
                if rc=='1' and cl: r.append(f'{prop}: caught ({cl.group(1)}, hit by {cl.group(2)} runs of the quick tier, {t} s)')
                elif rc=='0': r.append(f'{prop}: missed at the quick tier ({t} s)')
                else: r.append(f'{prop}: harness trouble rc={rc}')
    for sha,runs in res.items():
        d=f'{V}/seeded/rev-{sha}'
        os.makedirs(d,exist_ok=True)
        diff=subprocess.check_output(['git','-C','/repo','diff',sha,sha+'^'],text=True)
        open(d+'/patch.diff','w').write(diff)
        prop,what=fixed[sha]
        old={}
        if os.path.exists(d+'/meta.json'): old=json.load(open(d+'/meta.json'))
        allruns=list(dict.fromkeys(old.get('checks_run',[])+runs))
        caught=any('caught' in x for x in allruns)
        verdict='caught' if caught else ('not testable alone' if all('does not' in x for x in allruns) else 'missed')
        json.dump({"id":f"rev-{sha}","origin":"regression: reverse patch of a fix: commit (re-introduces a defect the checks found on the pinned tree)","breaks_property":prop,
                   "change":"reverts "+sha+": "+what[:300],"needs_to_manifest":"see the fixed: line for "+sha+" in known_findings.txt (the history that failed)",
                   "confirmed":"the original violation and its replay file were the demonstration; scripts/regression_wave.sh applies the reverse patch in a scratch worktree and runs the quick tier",
                   "checks_run":allruns,"verdict":verdict},open(d+'/meta.json','w'),indent=1)
rows=[]
for mf in sorted(glob.glob(V+'/seeded/*/meta.json')):
    m=json.load(open(mf))
    rows.append(m)
out=["# Seeded changes and which checks catch them","",
"Every entry is a change to reduction that breaks one property while still compiling. `sub1-*` ... `sub5-*` were written by fresh sub-agents that saw only the property text and a scratch worktree (five waves); each was confirmed (applies, builds, pinned tests pass, its demonstration fails with and passes without the change) before it was kept. `rev-*` re-introduce the defects repaired on the pinned tree (reverse patch of each `fix:` commit). None of these is ever committed to the repository; to run the registered checks against one: `git -C /repo apply seeded/<id>/patch.diff`, run, `git -C /repo checkout -- .` (or `scripts/mutant.sh <name> <patch> <props...>` for a scratch worktree).","",
"| id | property | change | result | checks |","|---|---|---|---|---|"]
n={'caught':0,'deep':0,'missed':0,'other':0}
for m in rows:
    v=m.get('verdict','')
    if v.startswith('caught') and ('larger' in v or 'thorough-tier' in v): k='deep'
    elif v.startswith('caught'): k='caught'
    elif v.startswith('missed'): k='missed'
    else: k='other'
    n[k]+=1
    out.append(f"| {m['id']} | {m['breaks_property']} | {m['change'][:160].replace('|','/')} | {v} | {'; '.join(m.get('checks_run',[])).replace('|','/')} |")
out+=["",f"Totals: {n['caught']} caught by the quick tier, {n['deep']} caught only at larger (thorough-tier) budgets, {n['missed']} missed, {n['other']} not testable on their own."]
open(V+'/seeded/INDEX.md','w').write('\n'.join(out)+'\n')
print(n)
