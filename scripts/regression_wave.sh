#!/bin/bash
# Re-introduces every repaired defect (reverse patch of each fix: commit) into a scratch worktree and
# runs the quick tier of the property it was found under. Output: one line per fix.
V=$(cd "$(dirname "$0")/.." && pwd); cd $V
mkdir -p /var/tmp/revs
grep '^fixed:' known_findings.txt | while read -r _ propkv sha rest; do
  prop=${propkv#property=}
  git -C /repo diff $sha $sha^ > /var/tmp/revs/$sha.diff 2>/dev/null || continue
  echo "$sha $prop"
done | xargs -P ${PAR:-3} -L 1 bash -c 'extra=""; case $1 in C20) extra="C04";; esac; scripts/mutant.sh rev-$0 /var/tmp/revs/$0.diff $1 $extra'
