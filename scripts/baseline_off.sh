#!/bin/bash
# Runs the repository's pinned baseline suite with the verif guard OFF (plain go test, no tags)
# and compares with /root/.vp/BASELINE.json. Exit 0 iff every stable test passes.
cd /repo || exit 2
OUT=$(mktemp /var/tmp/baseline.XXXXXX.json)
go test -mod=mod -json -vet=off -count=1 -timeout 25m ./... > "$OUT" 2>/dev/null
python3 - "$OUT" <<'PY'
import json,sys
want=set(json.load(open('/root/.vp/BASELINE.json'))['stable_pass'])
got=set(); failed=set()
for l in open(sys.argv[1]):
    try: e=json.loads(l)
    except Exception: continue
    if e.get('Test') and e.get('Action') in('pass','fail'):
        n=e['Package']+'::'+e['Test']
        (got if e['Action']=='pass' else failed).add(n)
missing=sorted(want-got)
print(f"baseline: {len(want&got)}/{len(want)} stable tests pass; failed={len(failed&want)} missing={len(missing)}")
for m in missing[:20]: print("  MISSING/FAILED:",m)
sys.exit(0 if not missing else 1)
PY
rc=$?
rm -f "$OUT"
exit $rc
