#!/bin/bash
# usage: scripts/run_all.sh quick|thorough [props...] — runs the registered checks in sequence, prints a summary
cd /verif
T=${1:-quick}; shift
PROPS=${@:-$(python3 -c "import json;print(' '.join(c['property_id'] for c in json.load(open('MANIFEST.json'))['checks']))")}
for p in $PROPS; do
  s=$(date +%s)
  ./check.sh $p $T > /verif/out/$p.$T.log 2>&1; rc=$?
  echo "$p $T rc=$rc $(( $(date +%s)-s ))s :: $(grep '^simrun:\|^VIOLATION\|^KNOWN\|HARNESS-TROUBLE' /verif/out/$p.$T.log | head -3 | tr '\n' ' ' | cut -c1-260)"
done
