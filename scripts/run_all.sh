#!/bin/bash
# usage: scripts/run_all.sh quick|thorough [props...] — runs the registered checks in sequence, prints a summary
V=$(cd "$(dirname "$0")/.." && pwd); cd "$V"
T=${1:-quick}; shift
PROPS=${@:-$(python3 -c "import json;print(' '.join(c['property_id'] for c in json.load(open('MANIFEST.json'))['checks']))")}
mkdir -p out
for p in $PROPS; do
  s=$(date +%s)
  ./check.sh $p $T > out/$p.$T.log 2>&1; rc=$?
  echo "$p $T rc=$rc $(( $(date +%s)-s ))s :: $(grep '^simrun:\|^VIOLATION\|^KNOWN\|HARNESS-TROUBLE' out/$p.$T.log | head -3 | tr '\n' ' ' | cut -c1-260)"
done
