#!/bin/bash
# usage: scripts/selftest_determinism.sh <prop> <nruns> [bin]
# Runs each of the first <nruns> run indices three times in separate processes (host GOMAXPROCS 1 / 4 / 16,
# 16 processes at once) and compares the event-log hashes. Exit 1 on any divergence.
P=$1; N=${2:-30}; BIN=${3:-/verif/.build/dev/h.test}
T=$(mktemp -d /var/tmp/detXXXX)
run() { # idx procs tag
  GOMAXPROCS=$2 GODEBUG=asyncpreemptoff=1 VERIF_PROP=$P VERIF_SEED=${VERIF_SEED:-7} VERIF_FROM=$1 VERIF_TO=$(($1+1)) VERIF_SHRINK_MAX=0 $BIN -test.run TestWorker 2>/dev/null | grep '^R ' | python3 -c "
import sys,json
for l in sys.stdin:
    r=json.loads(l[2:]); print(r['run'], r['log_hash'], r['log_len'], r['class'] if 'class' in r else '-', r['outcome'])" > $T/$1.$3
}
export -f run; export P BIN T
for i in $(seq 0 $((N-1))); do echo "$i 1 a"; echo "$i 4 b"; echo "$i 16 c"; done | xargs -P 16 -L 1 bash -c 'run $0 $1 $2'
bad=0
for i in $(seq 0 $((N-1))); do
  if ! cmp -s $T/$i.a $T/$i.b || ! cmp -s $T/$i.a $T/$i.c; then echo "DIVERGED run $i: $(cat $T/$i.a) | $(cat $T/$i.b) | $(cat $T/$i.c)"; bad=1; fi
done
echo "determinism selftest $P: $N runs x 3 processes, diverged=$bad"
rm -rf $T
exit $bad
