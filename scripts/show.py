#!/usr/bin/env python3
import json,sys
r=json.load(open(sys.argv[1]))
n=int(sys.argv[2]) if len(sys.argv)>2 else 40
print(r['violation']); print('cfg',r['case']['cfg']); 
print('ops',' '.join(o['k']+str(o.get('a','')) for o in r['case']['ops'])); print('choices',len(r["choices"] or []), 'minimised',r['minimised'])
print('\n'.join(r.get('trace',[])[-n:]))
