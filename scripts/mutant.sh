#!/bin/bash
# usage: scripts/mutant.sh <name> <patch.diff> <prop> [more props...]
# Applies the patch to a scratch worktree of /repo (outside /repo and /verif), builds the harness against it,
# runs the quick tier of the given properties, prints caught/missed, removes the worktree.
V=$(cd "$(dirname "$0")/.." && pwd); NAME=$1; PATCH=$(readlink -f $2); shift 2
WT=/var/tmp/mut-$NAME; B=/var/tmp/mutb-$NAME
rm -rf $WT $B; git -C /repo worktree add -q --detach $WT HEAD || exit 2
trap 'git -C /repo worktree remove --force $WT 2>/dev/null; rm -rf $B /var/tmp/mutroot-$NAME' EXIT
if ! git -C $WT apply $PATCH 2>/var/tmp/mut-$NAME.err; then echo "$NAME: PATCH-DOES-NOT-APPLY $(head -2 /var/tmp/mut-$NAME.err | tr '\n' ' ')"; exit 3; fi
if ! VERIF_ROOT=$V VERIF_REPO=$WT $V/scripts/build.sh $B > $B.log 2>&1; then echo "$NAME: BUILD-FAILED $(tail -3 $B.log | tr '\n' ' ')"; exit 2; fi
ROOT=/var/tmp/mutroot-$NAME; mkdir -p $ROOT/out $ROOT/evidence; cp $V/known_findings.txt $ROOT/
for P in "$@"; do
  s=$(date +%s)
  VERIF_ROOT=$ROOT $B/simrun -prop $P -tier ${TIER:-quick} ${RUNS:+-runs $RUNS} ${WALL:+-wall $WALL} -bin $B/h.test > $ROOT/$P.log 2>&1; rc=$?
  echo "$NAME $P rc=$rc $(( $(date +%s)-s ))s :: $(grep -a -A2 '^VIOLATION' $ROOT/$P.log | head -3 | tr '\n' ' ' | cut -c1-330) $(grep -a HARNESS-TROUBLE $ROOT/$P.log | head -1 | cut -c1-200)"
  if [ $rc = 2 ]; then cp $ROOT/$P.log /var/tmp/mut-$NAME-$P.trouble.log; fi
  if [ $rc = 1 ] && [ -n "$KEEP_REPLAY" ]; then mkdir -p $KEEP_REPLAY; cp $(grep -a -m1 '^VIOLATION' $ROOT/$P.log | sed 's/.*replay=//') $KEEP_REPLAY/$NAME-$P.replay.json 2>/dev/null; fi
done
