#!/bin/bash
# usage: build.sh <builddir>   — regenerates protobuf + instrumented overlay from /repo's
# current working tree and builds the harness test binary with -tags verif. Exit 2 on trouble.
set -u
B=${1:?builddir}
export GOFLAGS=-mod=mod GOPROXY=off GOSUMDB=off GOTOOLCHAIN=local
GO=go1.26.8
V=${VERIF_ROOT:-/verif}
# The registered checks always build /repo's working tree. VERIF_REPO points the build at a scratch
# worktree instead (used only by the mutation waves so that several can run without touching /repo).
R=${VERIF_REPO:-/repo}
TB=$V/.build/tools
mkdir -p "$B" "$TB" || exit 2
fail() { echo "BUILD-ERROR: $*" >&2; exit 2; }
if [ ! -x $TB/protogen ] || [ ! -x $TB/simrewrite ] || [ ! -x $TB/protoc-gen-connect-go ] || [ $V/tools/simrewrite/main.go -nt $TB/simrewrite ] || [ $V/tools/protogen/main.go -nt $TB/protogen ]; then
  (cd $V/tools && $GO build -o $TB/protogen ./protogen && $GO build -o $TB/simrewrite ./simrewrite && $GO build -o $TB/protoc-gen-connect-go connectrpc.com/connect/cmd/protoc-gen-connect-go) || fail "tools"
fi
rm -rf "$B/gen" "$B/rw"
$TB/protogen $R "$B/gen" $TB/protoc-gen-connect-go || fail "protogen"
PKGS="batching clocks dkv dkv/bg dkv/memtable dkv/recovery dkv/sst dkv/wal dkv/storage jobs storage/snapshots workers workers/operator workers/sourcerunner workers/wmark connectors connectors/embedded connectors/httpapi connectors/kinesis util/ds"
$TB/simrewrite $R "$B/rw" $V/simrt "$B/gen" $PKGS > "$B/rewrite.log" || fail "simrewrite (see $B/rewrite.log)"
MODFLAG=""
if [ "$R" != "/repo" ]; then
  sed "s#=> /repo#=> $R#" $V/go.mod > "$B/alt.mod"; cp $V/go.sum "$B/alt.sum"; MODFLAG="-modfile=$B/alt.mod"
fi
(cd $V && $GO test $MODFLAG -c -tags verif -vet=off -overlay "$B/rw/overlay.json" -o "$B/h.test" ./h) || fail "go test -c"
(cd $V && $GO build -o "$B/simrun" ./cmd/simrun) || fail "simrun"
echo "build ok: $B"
