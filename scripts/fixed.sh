#!/bin/bash
# usage: scripts/fixed.sh <prop> <text> — append a 'fixed:' line for /repo HEAD
echo "fixed: property=$1 $(git -C /repo rev-parse --short HEAD) $2" >> /verif/known_findings.txt
