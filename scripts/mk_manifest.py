import json
props = {
 "C01": ("H-CLUSTER", "seeded search over kill / graceful-stop / restart plans of workers and of the job (biased to the windows around the one-minute checkpoint ticks and the deploy phase) under a seeded interleaving of every goroutine, RPC and clock advance of a real job + 1-3 real workers; oracle: self-verifying keyed state (per key and split: count + digest of the records folded in) checked on every handler invocation, final checkpoint read back independently = fold of the complete input", "5.C01"),
 "C04": ("H-CLUSTER", "failure-free seeded search over batching parameters, handler latencies and schedules (time-out vs size flush, asynchronous KeyEventBatch completion order, back-pressure); oracle: every record exactly once at the owner in per-split key order (count/digest state), per-stream delivery log: no record beyond the reported position ahead of a barrier, none below it behind", "5.C04"),
 "C05": ("H-CLUSTER", "multi-party agreement under the key-group swarm: every record is processed by the operator whose independently computed range contains MurmurHash3-32(key) mod G (independent implementation), everything persisted is stored under that group, reported ranges are contiguous, disjoint, covering, sizes differ by at most one", "5.C05"),
 "C14": ("H-CLUSTER", "seeded search over the moment a savepoint is requested (idle, while a periodic checkpoint is pending, twice), then kill everything, delete all working storage, restart from the savepoint URI with the same or another worker count and feed the rest of the input; oracle: at most one checkpoint in flight, C01's self-verifying state afterwards, positions restored = positions in the snapshot", "5.C14"),
 "C15": ("H-CLUSTER", "seeded search over register / deregister / kill / partition / job-restart plans with standby workers; safety oracle from the deploy log (exactly WorkerCount registered members, consistent member lists), bounded liveness: after the last fault, within 30 simulated minutes the input is consumed and a checkpoint covering it is published", "5.C15"),
 "C16": ("H-CLUSTER", "parts (a) and (b): per-stream delivery log against the positions each runner reported for each checkpoint; each split has exactly one reader per assembly and after a recovery resumes at the position decoded independently from the published snapshot. Part (c) (Kinesis shard lineage) is not covered by this check", "5.C16"),
 "C02": ("H-OP", "seeded search over interleavings of 1-4 concurrent sender streams (events, watermarks, barriers at per-sender positions, 1-3 consecutive checkpoints) with the operator's event loop, batch time-outs, handler latency and DKV background tasks; oracle: at every acknowledgement exactly the pre-barrier events have been applied, and the acknowledged checkpoint, read back independently, holds exactly their state and pending timers", "5.C02"),
 "C03": ("H-OP", "seeded search over histories of handler-returned puts/deletes over adversarial subject keys / namespaces / entry keys, batchings and flush/compaction timings; oracle: on every handler invocation the supplied state equals the shadow map exactly", "5.C03"),
 "C06": ("H-OP", "seeded search over rescales M->N (1-4 each) through the real Assembly.Deploy with every permutation of the recorded operator checkpoints, operators replaced or redeployed in place, state in memtable/flushed/compacted; oracle: reference handler after the restore (state, timers at the new owner, exactly once) + independent read-back of the next checkpoints", "5.C06"),
 "C11": ("H-OP + H-CLUSTER", "part (b), H-OP: seeded search over interleavings of 1-4 senders' watermark messages with events; oracle: the watermark the handler is told is the minimum of the upstreams' latest processed watermarks (unreported = epoch), no timer later than it fires. Part (a), H-CLUSTER: every real source runner's watermark per stream never decreases, stays below the largest timestamp it has keyed, and 30 simulated seconds after its last record equals that timestamp minus 1ns", "5.C11"),
 "C17": ("H-DKV-LOW", "seeded generation of entry runs and WAL histories against a slice model, with the simulator owning the restart between write and read (reopen from JSON descriptor) and the Truncate-vs-writer interleaving; weakest fit for the technique, stated in DESIGN.md", "5.C17"),
 "C12": ("H-STORE", "seeded search over create/savepoint/ack sequences (duplicates, wrong ids, foreign senders) interleaved with the asynchronous publication goroutines and store restarts; oracle: reference checkpoint state machine + independent decoding of every published snapshot", "5.C12"),
 "C13": ("H-STORE", "seeded search over chains of completed checkpoints (ids on base64 alphabet boundaries) with a crash after any storage operation and overlapping asynchronous write/remove/notify steps; oracle: restart resumes from the highest id decodable in storage, newest snapshot never removed, retention notifications monotone", "5.C13"),
 "C10": ("H-TIMER", "seeded search over timer registration / watermark-advance / checkpoint+restore histories with cache sizes below the timer set, interleaved with the DB background tasks and crash points; oracle: reference set of pending timers (exactly-once, non-decreasing order)", "5.C10"),
 "C20": ("H-BATCH", "seeded search over interleavings of adder, size flush, time-out flusher, asynchronous fetches, consumer and clock advances; oracle: concatenation of batches / fetcher output equals the input sequence, stale tokens flush nothing", "5.C20"),
 "C07": ("H-DKV", "seeded search over foreground-operation histories x flush/compaction interleavings; sequential-map oracle on every Get/ScanPrefix", "5.C07"),
 "C08": ("H-DKV", "seeded search over histories with checkpoints, crash (process kill) and restore chains; model snapshot per Checkpoint call compared after every restore", "5.C08"),
 "C09": ("H-DKV", "seeded search with scheduled GC steps, retention updates, crashes and same-process redeploys; behavioural oracle: every retained checkpoint restores, every referenced file exists unchanged", "5.C09"),
 "C18": ("H-DKV", "seeded search over level layouts reached through the DB with swarm compactor settings; map oracle after every step", "5.C18"),
}
checks=[]
for p,(h,txt,ref) in props.items():
    checks.append({
      "property_id": p,
      "quick_cmd": f"./check.sh {p} quick",
      "thorough_cmd": f"./check.sh {p} thorough",
      "evidence_file": f"/verif/evidence/{p}.json",
      "replay_cmd_template": f"./check.sh {p} --replay {{path}}",
      "engine": "simrun",
      "level_claimed": {"category":"exploration","text": txt + ". Sampling of schedules/fault sequences (one seed = one exactly replayable execution), not enumeration: a clean batch is evidence, not proof.", "design_ref": ref},
      "level_note": "Trusted: the Go runtime's synctest bubble (fake clock, quiescence), the AST instrumentation preserving program meaning, SimDisk's model of publish atomicity. One P, cooperative switching: sequentially consistent interleavings only.",
      "technique": "deterministic simulation with fault injection (seeded scheduler over instrumented real code, simulated disk, reference-model oracle)"
    })
m={
 "version":1,
 "setup_cmd":"./setup.sh",
 "hooks":{"guard":"verif (Go build tag)","enable":"go test -c -tags verif -overlay <generated pb + instrumented sources> (scripts/build.sh)","baseline_off_cmd":"/verif/scripts/baseline_off.sh","source_commits":[],"add_only":True},
 "engines":[{"name":"simrun","path":"/verif/cmd/simrun","serves_properties":list(props),"kind_free_text":"batch driver: 16 worker processes running seeded simulations (verifsimrt scheduler inside testing/synctest bubbles over AST-instrumented repository code), shrink + fresh-process replay of every violation"}],
 "checks":checks,
 "not_applicable":[{"property_id":"C19","reason":"pure in-memory sequential data structures: no schedule, clock, I/O, fault or second party for a simulator to own; they run as real code under the C07/C10/C18 oracles and the zip tree's rank randomness is owned by the simulator (hook K4)"}],
 "notes":"work in progress: remaining properties are being added harness by harness; see DESIGN.md"
}
import subprocess
m["hooks"]["source_commits"]=[l.split()[0] for l in subprocess.check_output("git -C /repo log --format='%h %s' | grep 'verif hook'",shell=True,text=True).splitlines()]
allp=[f"C{i:02d}" for i in range(1,21)]
for q in allp:
    if q not in props and q!="C19":
        m["not_applicable"].append({"property_id":q,"reason":"not claimed yet: harness under construction in this session (see DESIGN.md section 5 for the planned check); no check is registered, so nothing is asserted about it"})
json.dump(m,open('/verif/MANIFEST.json','w'),indent=1)
