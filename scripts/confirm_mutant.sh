#!/bin/bash
# usage: scripts/confirm_mutant.sh <srcdir with patch.diff + demo file(s)> <demo package> <demo -run regex>
# Confirms independently, in a fresh scratch worktree of /repo HEAD: the patch applies, builds, the pinned tests
# pass with it, the demonstration fails with it and passes without it. Prints CONFIRMED or the reason.
SRC=$1; PKG=$2; RUN=$3; NAME=$(basename $SRC)
WT=/var/tmp/confirm-$NAME; rm -rf $WT; git -C /repo worktree add -q --detach $WT HEAD || exit 2
trap 'git -C /repo worktree remove --force $WT 2>/dev/null' EXIT
/verif/.build/tools/protogen $WT $WT /verif/.build/tools/protoc-gen-connect-go >/dev/null 2>&1
export GOFLAGS=-mod=mod GOPROXY=off
cd $WT
git apply $SRC/patch.diff || { echo "$NAME: patch does not apply to HEAD"; exit 3; }
go build ./... > /var/tmp/confirm-$NAME.log 2>&1 || { echo "$NAME: does not build"; exit 3; }
if ! go test -vet=off -count=1 ./dkv/... ./batching/ ./util/... ./storage/locations/ ./storage/objstore/ >> /var/tmp/confirm-$NAME.log 2>&1; then echo "$NAME: pinned tests FAIL with the change"; exit 3; fi
for f in $SRC/*_test.go; do cp $f $WT/$PKG/; done
go test -vet=off -count=1 -run "$RUN" ./$PKG/ >> /var/tmp/confirm-$NAME.log 2>&1 && { echo "$NAME: demo PASSES with the change (not a demonstration)"; exit 3; }
git apply -R $SRC/patch.diff
go test -vet=off -count=1 -run "$RUN" ./$PKG/ >> /var/tmp/confirm-$NAME.log 2>&1 || { echo "$NAME: demo FAILS without the change"; tail -5 /var/tmp/confirm-$NAME.log; exit 3; }
echo "$NAME: CONFIRMED (applies, builds, pinned tests pass, demo fails with / passes without)"
