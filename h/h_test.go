package h

import (
	"testing"

	"verif/sim"
)

var harnessOf = map[string]*sim.Harness{
	"C07": HDKV, "C08": HDKV, "C09": HDKV, "C18": HDKV,
	"C20": HBatch,
	"C10": HTimer,
	"C17": HSSTWAL,
	"C02": HOp, "C03": HOp, "C06": HOp, "C11": HOp,
	"C01": HCluster, "C04": HCluster, "C05": HCluster, "C14": HCluster, "C15": HCluster, "C16": HCluster,
	"C12": HStore, "C13": HStore,
}

func TestWorker(t *testing.T) {
	byName := map[string]*sim.Harness{}
	for _, h := range []*sim.Harness{HDKV, HBatch, HTimer, HStore, HSSTWAL, HOp, HCluster} {
		byName[h.Name] = h
	}
	sim.Worker(t, byName, func(prop string) *sim.Harness { return harnessOf[prop] })
}
