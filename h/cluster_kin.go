package h

import (
	"context"
	"encoding/json"
	"fmt"
	"math/big"
	mrand "math/rand/v2"
	"net/http"
	"net/http/httptest"
	"sort"
	"strconv"
	"strings"
	"sync"
	"time"

	"github.com/aws/aws-sdk-go-v2/aws"
	awskinesis "github.com/aws/aws-sdk-go-v2/service/kinesis"
	kinesistypes "github.com/aws/aws-sdk-go-v2/service/kinesis/types"
	gproto "google.golang.org/protobuf/proto"
	protocol "reduction.dev/reduction-protocol/kinesispb"
	"reduction.dev/reduction/connectors"
	"reduction.dev/reduction/connectors/kinesis"
	"reduction.dev/reduction/connectors/kinesis/kinesisfake"
	"reduction.dev/reduction/connectors/kinesis/kinesispb"
	"reduction.dev/reduction/proto/snapshotpb"
	"reduction.dev/reduction/proto/workerpb"
	simrt "reduction.dev/reduction/verifsimrt"
)

// Kinesis mode of H-CLUSTER (C16 part (c), and C01/C04 over a source whose
// splits appear, finish and have lineage).
//
// The source is the real connectors/kinesis SourceSplitter, SplitTracker and
// SourceReader talking - through the real AWS SDK client - to the repository's
// own kinesisfake, served in-process (hook K5, no sockets). The stream has a
// seeded history of PutRecords / SplitShard / MergeShards; a prefix of it exists
// before the job starts, the rest is applied by a producer task while the job
// runs. Ground truth (which shard holds which record at which position, and the
// shard lineage) is read back from a replica of the fake that has executed the
// whole history, before the run starts.
//
// Oracles added on top of the cluster oracles (exactly-once keyed state,
// per-split order, position/barrier cut):
//   - a shard is handed out only after each of its parents was reported finished by
//     the reader that held it, in the same world (a restore rolls the set back to
//     what the restored checkpoint implies);
//   - within one splitter incarnation a shard is handed out at most once;
//   - after a restore a shard resumes at the position of the restored checkpoint.
type kinWorld struct {
	w      *cluWorld
	fake   *kinesisfake.Fake
	client *awskinesis.Client
	arn    string
	steps  []kinStep
	pre    int
	recs   []kinPlanRec
	// ground truth
	parents map[int][]int
	closed  map[int]bool

	mu           sync.Mutex
	round        int
	finished     map[int]bool               // current world
	finishedEver map[int]bool               // any world
	base         map[int]map[int]bool       // round -> shards finished in the world the round started from
	cut          map[[2]uint64]map[int]bool // (round, checkpoint id) -> shards finished ahead of the barrier, as acknowledged so far
	finishedAt   map[uint64]map[int]bool    // checkpoint id -> shards finished ahead of the barriers of the snapshot published under that id
	readers      map[string]*kinReader      // source runner id -> its current reader
	pubRound     map[uint64]int             // checkpoint id -> splitter incarnation that published it
	assignedIn   map[int]map[int]string     // round -> shard -> runner
	producerDone bool
	nShards      int
}

type kinStep struct {
	kind  string // put | split | merge
	n     int    // put: number of records; split/merge: open shard selector
	gapMS int64  // wait before the step (when applied during the run)
}

type kinPlanRec struct {
	pk  string
	key string
	ts  int64
}

type inprocHTTP struct{ h http.Handler }

func (c inprocHTTP) Do(req *http.Request) (*http.Response, error) {
	rec := httptest.NewRecorder()
	c.h.ServeHTTP(rec, req)
	return rec.Result(), nil
}

func newKinClient(h http.Handler) *awskinesis.Client {
	return awskinesis.New(awskinesis.Options{
		EndpointResolver: awskinesis.EndpointResolverFromURL("http://kinesis.sim"),
		Region:           "us-east-2",
		Credentials:      aws.AnonymousCredentials{},
		Retryer:          aws.NopRetryer{},
		HTTPClient:       inprocHTTP{h},
	})
}

const kinStream = "sim"

func shardIndex(id string) (int, bool) {
	s, ok := strings.CutPrefix(id, "shardId-")
	if !ok {
		return 0, false
	}
	n, err := strconv.Atoi(s)
	return n, err == nil
}
func shardName(i int) string { return fmt.Sprintf("shardId-%012d", i) }

type kinShardInfo struct {
	id         int
	start, end *big.Int
	parents    []int
}

func kinListShards(cl *awskinesis.Client, arn string) ([]kinShardInfo, error) {
	out, err := cl.ListShards(context.Background(), &awskinesis.ListShardsInput{StreamARN: &arn})
	if err != nil {
		return nil, err
	}
	var res []kinShardInfo
	for _, sh := range out.Shards {
		i, _ := shardIndex(*sh.ShardId)
		inf := kinShardInfo{id: i, start: new(big.Int), end: new(big.Int)}
		inf.start.SetString(*sh.HashKeyRange.StartingHashKey, 10)
		inf.end.SetString(*sh.HashKeyRange.EndingHashKey, 10)
		for _, p := range []*string{sh.ParentShardId, sh.AdjacentParentShardId} {
			if p != nil && *p != "" {
				pi, _ := shardIndex(*p)
				inf.parents = append(inf.parents, pi)
			}
		}
		res = append(res, inf)
	}
	return res, nil
}

func kinOpen(shards []kinShardInfo) []kinShardInfo {
	isParent := map[int]bool{}
	for _, s := range shards {
		for _, p := range s.parents {
			isParent[p] = true
		}
	}
	var open []kinShardInfo
	for _, s := range shards {
		if !isParent[s.id] {
			open = append(open, s)
		}
	}
	sort.Slice(open, func(i, j int) bool { return open[i].start.Cmp(open[j].start) < 0 })
	return open
}

// kinApply executes one step of the stream history; next is the global number
// of the first record of a put step.
func kinApply(cl *awskinesis.Client, arn string, st kinStep, recs []kinPlanRec, next int, payload func(g int) []byte) error {
	ctx := context.Background()
	switch st.kind {
	case "put":
		var entries []kinesistypes.PutRecordsRequestEntry
		for g := next; g < next+st.n; g++ {
			pk := recs[g].pk
			entries = append(entries, kinesistypes.PutRecordsRequestEntry{Data: payload(g), PartitionKey: &pk})
		}
		_, err := cl.PutRecords(ctx, &awskinesis.PutRecordsInput{StreamARN: &arn, Records: entries})
		return err
	case "split", "merge":
		shards, err := kinListShards(cl, arn)
		if err != nil {
			return err
		}
		open := kinOpen(shards)
		if st.kind == "split" {
			s := open[st.n%len(open)]
			mid := new(big.Int).Add(s.start, s.end)
			mid.Div(mid, big.NewInt(2))
			if mid.Cmp(s.start) <= 0 || mid.Cmp(s.end) >= 0 {
				return nil
			}
			name, id, key := kinStream, shardName(s.id), mid.String()
			_, err = cl.SplitShard(ctx, &awskinesis.SplitShardInput{StreamName: &name, ShardToSplit: &id, NewStartingHashKey: &key})
			return err
		}
		if len(open) < 2 {
			return nil
		}
		i := st.n % (len(open) - 1)
		a, b := shardName(open[i].id), shardName(open[i+1].id)
		_, err = cl.MergeShards(ctx, &awskinesis.MergeShardsInput{StreamARN: &arn, ShardToMerge: &a, AdjacentShardToMerge: &b})
		return err
	}
	return nil
}

func kinCreate(cl *awskinesis.Client, shards int) (string, error) {
	name := kinStream
	n := int32(shards)
	if _, err := cl.CreateStream(context.Background(), &awskinesis.CreateStreamInput{StreamName: &name, ShardCount: &n}); err != nil {
		return "", err
	}
	return "arn:aws:kinesis:us-east-2:123456789012:stream/" + name, nil
}

// newKinWorld generates the stream history, learns the ground truth from a
// replica, fills src.splits and applies the prefix of the history to the fake
// the run uses.
func newKinWorld(w *cluWorld, src *simSource) (*kinWorld, error) {
	c := w.c
	dr := mrand.New(mrand.NewPCG(uint64(c.Cfg("dataseed", 1)), 33))
	k := &kinWorld{w: w, parents: map[int][]int{}, closed: map[int]bool{}, finished: map[int]bool{}, finishedEver: map[int]bool{}, finishedAt: map[uint64]map[int]bool{}, assignedIn: map[int]map[int]string{},
		base: map[int]map[int]bool{}, cut: map[[2]uint64]map[int]bool{}, readers: map[string]*kinReader{}, pubRound: map[uint64]int{}}
	R, nkeys := int(c.Cfg("records", 10))*2, int(c.Cfg("nkeys", 2))
	nReshard := int(c.Cfg("reshards", 2))
	// plan: records in put steps of 1..6, reshard steps spread between them
	left, ts := R, int64(1000)
	for left > 0 {
		n := min(left, 1+dr.IntN(6))
		k.steps = append(k.steps, kinStep{kind: "put", n: n, gapMS: int64(2000 + dr.IntN(20000))})
		left -= n
	}
	for i := 0; i < nReshard; i++ {
		st := kinStep{kind: "split", n: dr.IntN(8), gapMS: int64(1000 + dr.IntN(30000))}
		if dr.IntN(3) == 0 {
			st.kind = "merge"
		}
		at := dr.IntN(len(k.steps) + 1)
		k.steps = append(k.steps[:at], append([]kinStep{st}, k.steps[at:]...)...)
	}
	for g := 0; g < R; g++ {
		switch c.Cfg("tsmode", 0) {
		case 0:
			ts += int64(1 + dr.IntN(5))
		case 1:
			ts = 1000 + int64(dr.IntN(R*5))
		case 2:
			ts += int64(dr.IntN(5)) - 1
		}
		k.recs = append(k.recs, kinPlanRec{pk: fmt.Sprintf("p%d", dr.IntN(16)), key: fmt.Sprintf("key%d", dr.IntN(nkeys)), ts: max(ts, 1)})
	}
	k.pre = int(c.Cfg("kinpre", 50)) * len(k.steps) / 100
	nShards0 := int(c.Cfg("splits", 1))
	if nShards0 > 3 {
		nShards0 = 1 + nShards0%3
	}

	// replica: the whole history, then read everything back
	rh, _ := kinesisfake.VerifNewHandler()
	rc := newKinClient(rh)
	arn, err := kinCreate(rc, nShards0)
	if err != nil {
		return nil, fmt.Errorf("replica CreateStream: %w", err)
	}
	next := 0
	for _, st := range k.steps {
		if err := kinApply(rc, arn, st, k.recs, next, func(g int) []byte { return []byte(strconv.Itoa(g)) }); err != nil {
			return nil, fmt.Errorf("replica %s: %w", st.kind, err)
		}
		if st.kind == "put" {
			next += st.n
		}
	}
	shards, err := kinListShards(rc, arn)
	if err != nil {
		return nil, err
	}
	place := make([][2]int, R)
	src.splits = make([][]simRecord, len(shards))
	k.nShards = len(shards)
	for _, sh := range shards {
		k.parents[sh.id] = sh.parents
		for _, p := range sh.parents {
			k.closed[p] = true
		}
		id := shardName(sh.id)
		it, err := rc.GetShardIterator(context.Background(), &awskinesis.GetShardIteratorInput{StreamARN: &arn, ShardId: &id, ShardIteratorType: kinesistypes.ShardIteratorTypeTrimHorizon})
		if err != nil {
			return nil, err
		}
		out, err := rc.GetRecords(context.Background(), &awskinesis.GetRecordsInput{StreamARN: &arn, ShardIterator: it.ShardIterator})
		if err != nil {
			return nil, err
		}
		for i, r := range out.Records {
			g, _ := strconv.Atoi(string(r.Data))
			place[g] = [2]int{sh.id, i}
			src.splits[sh.id] = append(src.splits[sh.id], simRecord{Split: sh.id, Idx: i, Key: k.recs[g].key, TS: k.recs[g].ts})
		}
	}
	n := 0
	for _, recs := range src.splits {
		n += len(recs)
	}
	if n != R {
		return nil, fmt.Errorf("replica read back %d of %d records", n, R)
	}

	// the fake the run uses
	h, fk := kinesisfake.VerifNewHandler()
	fk.SetGetRecordsLimit(int(c.Cfg("readbatch", 2)))
	k.fake = fk
	k.client = newKinClient(h)
	if k.arn, err = kinCreate(k.client, nShards0); err != nil {
		return nil, err
	}
	payload := func(g int) []byte {
		b, _ := json.Marshal(simRecord{Split: place[g][0], Idx: place[g][1], Key: k.recs[g].key, TS: k.recs[g].ts})
		return b
	}
	next = 0
	for _, st := range k.steps[:k.pre] {
		if err := kinApply(k.client, k.arn, st, k.recs, next, payload); err != nil {
			return nil, err
		}
		if st.kind == "put" {
			next += st.n
		}
	}
	rest, from := k.steps[k.pre:], next
	c.Go("producer", func() {
		simrt.SetGroup("producer")
		next := from
		for _, st := range rest {
			simrt.Sleep("producer-wait", time.Duration(st.gapMS)*time.Millisecond)
			if c.Violated() {
				return
			}
			if err := kinApply(k.client, k.arn, st, k.recs, next, payload); err != nil {
				c.Violate(w.prop+"/harness-stream-step", "%s: %v", st.kind, err)
				return
			}
			c.Probe("stream-" + st.kind + "-during-run")
			if st.kind == "put" {
				next += st.n
			}
		}
		k.mu.Lock()
		k.producerDone = true
		k.mu.Unlock()
	})
	return k, nil
}

func (k *kinWorld) config() kinesis.SourceConfig {
	return kinesis.SourceConfig{SourceID: "kin", StreamARN: k.arn, Client: k.client, ShardDiscoveryInterval: time.Duration(k.w.c.Cfg("discover_s", 10)) * time.Second}
}

// decodeKinState: reader split state -> (shard id, number of records consumed)
func decodeKinState(b []byte) (string, int64, bool) {
	var sh kinesispb.Shard
	if gproto.Unmarshal(b, &sh) != nil || sh.ShardId == "" {
		return "", 0, false
	}
	return sh.ShardId, kinCursor([]byte(sh.Cursor)), true
}

// kinCursor: "" = nothing read; otherwise the sequence number of the last record read
func kinCursor(b []byte) int64 {
	if len(b) == 0 {
		return 0
	}
	n, err := strconv.ParseInt(string(b), 10, 64)
	if err != nil {
		return -1
	}
	return n + 1
}

// --- splitter wrapper: records incarnations, checks every hand-out ---

type kinSplitter struct {
	k     *kinWorld
	inner *kinesis.SourceSplitter
	round int
}

func (k *kinWorld) newSplitter(srIDs []string, hooks connectors.SourceSplitterHooks, errChan chan<- error) connectors.SourceSplitter {
	src := k.w.src
	src.mu.Lock()
	src.rounds++
	round := src.rounds
	src.mu.Unlock()
	s := &kinSplitter{k: k, round: round}
	inner := hooks.AssignSplits
	hooks.AssignSplits = func(assignments map[string][]*workerpb.SourceSplit) {
		k.onAssign(round, assignments)
		inner(assignments)
	}
	s.inner = kinesis.NewSourceSplitter(k.config(), srIDs, hooks, errChan)
	return s
}

func (s *kinSplitter) IsSourceSplitter() {}
func (s *kinSplitter) Close() error      { return s.inner.Close() }
func (s *kinSplitter) Checkpoint() []byte {
	return s.inner.Checkpoint()
}
func (s *kinSplitter) NotifySplitsFinished(srID string, ids []string) {
	s.k.w.net.record("job", "job", "splits-finished", fmt.Sprintf("round=%d sr=%s %v", s.round, srID, ids))
	s.inner.NotifySplitsFinished(srID, ids)
}
func (s *kinSplitter) Start(ckpt *snapshotpb.SourceCheckpoint) error {
	k, src := s.k, s.k.w.src
	inCkpt := map[int]bool{}
	src.mu.Lock()
	if src.roundCkpt == nil {
		src.roundAssign, src.roundCkpt, src.roundWant = map[int]map[string]map[string]int64{}, map[int]uint64{}, map[int]map[string]int64{}
	}
	if ckpt != nil {
		src.roundCkpt[s.round] = ckpt.CheckpointId
		k.w.mu.Lock()
		if jc := k.w.allPublished[ckpt.CheckpointId]; jc != nil && len(jc.SourceCheckpoints) == 1 {
			want := map[string]int64{}
			for _, b := range jc.SourceCheckpoints[0].SplitStates {
				if id, cur, ok := decodeKinState(b); ok {
					want[id] = cur
					i, _ := shardIndex(id)
					inCkpt[i] = true
				}
			}
			src.roundWant[s.round] = want
		}
		k.w.mu.Unlock()
	}
	src.mu.Unlock()
	// the world this incarnation continues: what was finished when the restored
	// checkpoint was published, minus the shards it still holds positions for
	k.mu.Lock()
	k.round = s.round
	k.assignedIn[s.round] = map[int]string{}
	world := map[int]bool{}
	if ckpt != nil {
		base := k.finishedAt[ckpt.CheckpointId]
		if base == nil {
			base = k.finishedEver
		}
		for sh := range base {
			if !inCkpt[sh] {
				world[sh] = true
			}
		}
	}
	k.finished = world
	k.base[s.round] = map[int]bool{}
	for sh := range world {
		k.base[s.round][sh] = true
	}
	k.mu.Unlock()
	if ckpt != nil {
		// history tags for triage: how the two halves of the restored source checkpoint
		// (reader positions taken at the barriers, splitter state taken at publication) relate
		var st kinesispb.SplitterState
		tracked := map[int]bool{}
		if gproto.Unmarshal(ckpt.SplitterState, &st) == nil {
			for _, sh := range st.AssignedShards {
				if i, ok := shardIndex(sh.ShardId); ok {
					tracked[i] = true
				}
			}
		}
		k.mu.Lock()
		ahead := k.finishedAt[ckpt.CheckpointId]
		for _, sh := range sortedInts(tracked) {
			if ahead[sh] && !inCkpt[sh] {
				k.w.c.AddTag("the restored checkpoint's splitter state still tracks a shard its reader had finished ahead of the barrier")
				k.w.c.Probe("restore-with-finish-notification-after-publication")
				break
			}
		}
		if pr, ok := k.pubRound[ckpt.CheckpointId]; ok {
			var handed []int
			for sh := range k.assignedIn[pr] {
				handed = append(handed, sh)
			}
			sort.Ints(handed)
			for _, sh := range handed {
				if !tracked[sh] && !inCkpt[sh] && !ahead[sh] && shardName(sh) <= st.LastAssignedShardId {
					k.w.c.AddTag("the restored checkpoint has no trace of a shard that was handed out after its reader's barrier and finished before the checkpoint completed")
					k.w.c.Probe("restore-with-shard-handed-out-and-finished-during-checkpoint")
					break
				}
			}
		}
		k.mu.Unlock()
		for _, sh := range sortedInts(inCkpt) {
			if !tracked[sh] {
				k.w.c.AddTag("the restored checkpoint holds a reader position for a shard its splitter state no longer tracks")
				k.w.c.Probe("restore-with-shard-finished-after-barrier")
				break
			}
		}
	}
	k.w.net.record("job", "job", "splitter-start", fmt.Sprintf("round=%d ckpt=%d", s.round, ckpt.GetCheckpointId()))
	return s.inner.Start(ckpt)
}

func (k *kinWorld) onAssign(round int, assignments map[string][]*workerpb.SourceSplit) {
	c, prop := k.w.c, k.w.prop
	src := k.w.src
	src.mu.Lock()
	want, restored := src.roundWant[round]
	ckptID := src.roundCkpt[round]
	src.mu.Unlock()
	k.mu.Lock()
	defer k.mu.Unlock()
	for _, sr := range sortedKeysAny(assignments) {
		for _, sp := range assignments[sr] {
			sh, ok := shardIndex(sp.SplitId)
			if !ok {
				c.Violate(prop+"/unknown-split", "splitter handed out %q", sp.SplitId)
				return
			}
			k.w.net.record("job", "job", "hand-out", fmt.Sprintf("round=%d shard=%d to=%s cursor=%q", round, sh, sr, sp.Cursor))
			if prev, dup := k.assignedIn[round][sh]; dup {
				c.Violate(prop+"/split-assigned-twice", "splitter incarnation %d hands out shard %d to %s, it had already handed it to %s", round, sh, sr, prev)
				return
			}
			k.assignedIn[round][sh] = sr
			if round != k.round {
				continue // a hand-out of a replaced splitter: nobody acts on it
			}
			for _, p := range k.parents[sh] {
				if !k.finished[p] {
					c.Violate(prop+"/child-before-parent", "splitter incarnation %d hands out shard %d to %s while its parent shard %d has not been read to its end in this world (finished: %v)", round, sh, sr, p, sortedInts(k.finished))
					return
				}
			}
			if restored {
				cur := kinCursor(sp.Cursor)
				if cur != want[sp.SplitId] {
					c.Violate(prop+"/restored-position", "splitter incarnation %d (restore of checkpoint %d): shard %d resumes at %d, the checkpoint says %d", round, ckptID, sh, cur, want[sp.SplitId])
					return
				}
				if _, in := want[sp.SplitId]; in {
					c.Probe("positions-restored-from-checkpoint")
				}
			} else if len(sp.Cursor) != 0 {
				c.Violate(prop+"/restored-position", "splitter incarnation %d started without a checkpoint but shard %d resumes at %q", round, sh, sp.Cursor)
				return
			}
			if len(k.parents[sh]) > 0 {
				c.Probe("child-shard-handed-out")
			}
		}
	}
}

func sortedInts(m map[int]bool) []int {
	var out []int
	for k, v := range m {
		if v {
			out = append(out, k)
		}
	}
	sort.Ints(out)
	return out
}

// onAck: a source runner acknowledges checkpoint id. Reads, finish notifications and
// barrier handling happen on the runner's one event loop, so what its reader has
// finished by now is exactly what it finished ahead of the barrier.
func (k *kinWorld) onAck(srID string, id uint64) {
	k.mu.Lock()
	defer k.mu.Unlock()
	r := k.readers[srID]
	if r == nil {
		return
	}
	key := [2]uint64{uint64(r.round), id}
	if k.cut[key] == nil {
		k.cut[key] = map[int]bool{}
	}
	for _, sh := range r.done {
		k.cut[key][sh] = true
	}
}

// onPublished: the snapshot with this id was published by the current world.
func (k *kinWorld) onPublished(id uint64) {
	k.mu.Lock()
	cp := map[int]bool{}
	for s := range k.base[k.round] {
		cp[s] = true
	}
	for s := range k.cut[[2]uint64{uint64(k.round), id}] {
		cp[s] = true
	}
	k.finishedAt[id] = cp
	k.pubRound[id] = k.round
	k.mu.Unlock()
}

// finishedAhead: the shard was read to its end ahead of the barriers of the published snapshot id.
func (k *kinWorld) finishedAhead(id uint64, shard int) bool {
	k.mu.Lock()
	defer k.mu.Unlock()
	return k.finishedAt[id][shard]
}

// --- reader wrapper: paces reads, unwraps the record envelope ---

type kinReader struct {
	k       *kinWorld
	inner   *kinesis.SourceReader
	nextDue time.Duration
	round   int
	done    []int // shards this reader has read to their end
}

func (k *kinWorld) newReader(host string, srID func() string) connectors.SourceReader {
	// the reader belongs to the deployment of the newest splitter incarnation (the job
	// creates the splitter, deploys, then starts the splitter)
	k.w.src.mu.Lock()
	round := k.w.src.rounds
	k.w.src.mu.Unlock()
	rd := &kinReader{k: k, round: round}
	k.mu.Lock()
	k.readers[srID()] = rd
	k.mu.Unlock()
	hooks := connectors.SourceReaderHooks{NotifySplitsFinished: func(ids []string) {
		k.mu.Lock()
		for _, id := range ids {
			if sh, ok := shardIndex(id); ok {
				rd.done = append(rd.done, sh)
				k.finishedEver[sh] = true
				if round == k.round {
					k.finished[sh] = true
				}
			}
		}
		k.mu.Unlock()
		k.w.net.record(host, "job", "reader-finished", fmt.Sprintf("round=%d %v", round, ids))
		k.w.c.Probe("shard-finished")
		// as sourcerunner.New wires it: a call to the job whose error is dropped
		jobClient{w: k.w, from: host}.NotifySplitsFinished(context.Background(), srID(), ids)
	}}
	rd.inner = kinesis.NewSourceReader(k.config(), hooks)
	return rd
}

func (r *kinReader) AssignSplits(splits []*workerpb.SourceSplit) error {
	return r.inner.AssignSplits(splits)
}
func (r *kinReader) Checkpoint() [][]byte { return r.inner.Checkpoint() }
func (r *kinReader) ReadEvents() ([][]byte, error) {
	simrt.Yield("source.ReadEvents")
	src := r.k.w.src
	if now := r.k.w.c.S.SimTime(); now < r.nextDue {
		simrt.Sleep("source-poll", min(r.nextDue-now, time.Duration(src.pollMS)*time.Millisecond))
		if r.k.w.c.S.SimTime() < r.nextDue {
			return nil, nil
		}
	}
	// the connector reads one of its shards per call: the pace is per shard
	r.nextDue = r.k.w.c.S.SimTime() + time.Duration(src.paceMS)*time.Millisecond/time.Duration(max(1, len(r.inner.Checkpoint())))
	evs, err := r.inner.ReadEvents()
	if err != nil {
		return nil, err
	}
	out := make([][]byte, len(evs))
	for i, e := range evs {
		var rec protocol.Record
		if err := gproto.Unmarshal(e, &rec); err != nil {
			return nil, fmt.Errorf("kinesis reader produced an undecodable record: %w", err)
		}
		out[i] = rec.Data
	}
	return out, nil
}

var _ connectors.SourceReader = (*kinReader)(nil)
var _ connectors.SourceSplitter = (*kinSplitter)(nil)
