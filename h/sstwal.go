package h

import (
	"bytes"
	"encoding/json"
	"errors"
	"fmt"
	"math/rand/v2"
	"slices"
	"sort"
	"sync"

	"reduction.dev/reduction/dkv/kv"
	"reduction.dev/reduction/dkv/sst"
	"reduction.dev/reduction/dkv/wal"
	simrt "reduction.dev/reduction/verifsimrt"
	"verif/sim"
	"verif/simcore"
)

// H-DKV (low level), C17: the real sst.TableWriter / Table / SearchIndex /
// footer / bloom / fields / storage.Cursor and wal.Writer / Reader on the
// simulated disk. What the simulator owns here is small and said plainly: the
// "restart" between writing and reading (all objects dropped, tables reopened
// from their JSON descriptor, as recovery does) and, for the WAL, the
// interleaving of the asynchronous Truncate (called from the flush goroutine
// in the DB) with Put / Delete / Cut / Rotate. The rest is seeded generation of
// entry runs against a slice model.
var HSSTWAL = &sim.Harness{
	Name: "H-DKV-LOW",
	Gen:  genSSTWAL,
	Body: bodySSTWAL,
	Real: []string{"sst.TableWriter (Write, WriteRun)", "sst.Table (Get, ScanPrefix, Document, NewTableFromDocument)", "sst.SearchIndex", "sst footer", "dkv/bloom", "dkv/fields", "storage.Cursor", "wal.Writer", "wal.Reader", "wal.Handle"},
	Stub: []string{"storage.FileSystem -> SimDisk"},
}

type rawEntry struct {
	k, v []byte
	seq  uint64
	del  bool
}

func (e *rawEntry) Key() []byte    { return e.k }
func (e *rawEntry) Value() []byte  { return e.v }
func (e *rawEntry) SeqNum() uint64 { return e.seq }
func (e *rawEntry) IsDelete() bool { return e.del }

var _ kv.Entry = (*rawEntry)(nil)

func genSSTWAL(r *rand.Rand, prop, tier string) simcore.Case {
	cs := simcore.Case{Cfg: map[string]int64{}}
	sim.DrawPolicy(r, &cs)
	cs.Cfg["mode"] = int64(r.IntN(2))
	cs.Cfg["dataseed"] = int64(r.Uint32())
	if cs.Cfg["mode"] == 0 {
		// entry counts straddling the index spacing (16) and, now and then, big
		// enough for bloom-filter false positives
		n := []int64{0, 1, 2, 15, 16, 17, 31, 32, 33, 48, 5, 9, 100}[r.IntN(13)]
		if r.IntN(12) == 0 {
			n = int64(1500 + r.IntN(3000))
		}
		cs.Cfg["n"] = n
		cs.Cfg["target"] = []int64{0, 40, 64, 100, 300, 1000, 20000}[r.IntN(7)] // 0 = single table via Write
		if n > 200 {                                                            // big tables are there for bloom false positives, not for thousands of tiny tables
			cs.Cfg["target"] = []int64{0, 5000, 20000, 100000}[r.IntN(4)]
			cs.Cfg["pol.sticky"] = 2
		}
		cs.Cfg["keykind"] = int64(r.IntN(3))
		cs.Cfg["lookups"] = int64(10 + r.IntN(40))
		return cs
	}
	cs.Cfg["maxsize"] = []int64{30, 100, 1000, 1 << 20}[r.IntN(4)]
	n := 5 + r.IntN(60)
	if tier == "thorough" {
		n = 5 + r.IntN(200)
	}
	for i := 0; i < n; i++ {
		switch x := r.IntN(20); {
		case x < 10:
			cs.Ops = append(cs.Ops, simcore.Op{K: "put", A: []int64{int64(r.IntN(6)), int64(r.IntN(20))}})
		case x < 13:
			cs.Ops = append(cs.Ops, simcore.Op{K: "del", A: []int64{int64(r.IntN(6))}})
		case x < 16:
			cs.Ops = append(cs.Ops, simcore.Op{K: "cut"})
		case x < 18:
			cs.Ops = append(cs.Ops, simcore.Op{K: "trunc", A: []int64{int64(r.IntN(4))}})
		default:
			cs.Ops = append(cs.Ops, simcore.Op{K: "rotate", A: []int64{int64(r.IntN(3))}})
		}
	}
	return cs
}

func bodySSTWAL(c *sim.Ctx) {
	if c.Cfg("mode", 0) == 0 {
		bodySST(c)
	} else {
		bodyWAL(c)
	}
}

func genKey(r *rand.Rand, kind int64) []byte {
	switch kind {
	case 0: // short, prefix-rich, binary
		alpha := []byte{0x00, 'a', 'b', 0x7f, 0x80, 0xff}
		n := r.IntN(5)
		k := make([]byte, n)
		for i := range k {
			k[i] = alpha[r.IntN(len(alpha))]
		}
		return k
	case 1: // key-group style: 2 big-endian bytes + schema + payload
		k := make([]byte, 3+r.IntN(6))
		k[0], k[1], k[2] = byte(r.IntN(2)), byte(r.IntN(256)), byte(r.IntN(2))
		for i := 3; i < len(k); i++ {
			k[i] = byte(r.IntN(256))
		}
		return k
	}
	k := make([]byte, r.IntN(12))
	for i := range k {
		k[i] = byte(r.IntN(256))
	}
	return k
}

func entryEq(e kv.Entry, w *rawEntry) bool {
	if !bytes.Equal(e.Key(), w.k) || e.IsDelete() != w.del || e.SeqNum() != w.seq {
		return false
	}
	return w.del || bytes.Equal(e.Value(), w.v)
}

func bodySST(c *sim.Ctx) {
	prop := c.Prop
	disk := sim.NewDisk(c)
	fs := disk.FS("w", "/t")
	r := rand.New(rand.NewPCG(uint64(c.Cfg("dataseed", 1)), 99))
	n := int(c.Cfg("n", 10))
	kind := c.Cfg("keykind", 0)
	// unique sorted keys
	seen := map[string]bool{}
	var entries []*rawEntry
	for tries := 0; len(entries) < n && tries < n*20+50; tries++ {
		k := genKey(r, kind)
		if n > 200 {
			k = append(k, byte(r.IntN(256)), byte(r.IntN(256)), byte(r.IntN(256)))
		}
		if seen[string(k)] {
			continue
		}
		seen[string(k)] = true
		e := &rawEntry{k: k, seq: 1 + uint64(r.IntN(1<<20)), del: r.IntN(5) == 0}
		if !e.del {
			e.v = make([]byte, []int{0, 0, 1, 5, 40}[r.IntN(5)])
			for i := range e.v {
				e.v[i] = byte(r.IntN(256))
			}
		}
		entries = append(entries, e)
	}
	sort.Slice(entries, func(i, j int) bool { return bytes.Compare(entries[i].k, entries[j].k) < 0 })
	asSeq := func(yield func(kv.Entry) bool) {
		for _, e := range entries {
			if !yield(e) {
				return
			}
		}
	}
	simrt.SetGroup("w")
	tw := sst.NewTableWriter(fs, 0)
	var tables []*sst.Table
	var err error
	target := c.Cfg("target", 0)
	func() {
		defer func() {
			if p := recover(); p != nil {
				err = fmt.Errorf("panic: %v", p)
			}
		}()
		if target == 0 {
			if len(entries) == 0 {
				return // an empty single table is not something the engine ever writes
			}
			var t *sst.Table
			t, err = tw.Write(asSeq)
			tables = []*sst.Table{t}
		} else {
			tables, err = tw.WriteRun(asSeq, uint64(target))
		}
	}()
	if err != nil {
		c.Violate(prop+"/sst-write-failed", "writing %d entries (target %d): %v", len(entries), target, err)
		return
	}
	if len(tables) > 1 {
		c.Probe("split-tables")
	}
	// descriptors -> JSON -> "restart" -> reopened tables
	docs := make([]sst.TableDocument, len(tables))
	for i, t := range tables {
		docs[i] = t.Document()
	}
	raw, _ := json.Marshal(docs)
	simrt.Yield("restart")
	var docs2 []sst.TableDocument
	if err := json.Unmarshal(raw, &docs2); err != nil {
		c.Violate(prop+"/descriptor-unparsable", "%v", err)
		return
	}
	fs2 := disk.FS("r", "/elsewhere")
	reopened := make([]*sst.Table, len(docs2))
	for i, d := range docs2 {
		reopened[i] = sst.NewTableFromDocument(fs2, &sharedOwnership{}, d)
	}
	simrt.SetGroup("r")

	// key ranges of split tables: disjoint and ordered; concatenation == input
	for i := range docs2 {
		if bytes.Compare(docs2[i].StartKey, docs2[i].EndKey) > 0 {
			c.Violate(prop+"/table-range", "table %d start %q > end %q", i, docs2[i].StartKey, docs2[i].EndKey)
		}
		if i > 0 && bytes.Compare(docs2[i-1].EndKey, docs2[i].StartKey) >= 0 {
			c.Violate(prop+"/table-range-overlap", "table %d ends at %q, table %d starts at %q", i-1, docs2[i-1].EndKey, i, docs2[i].StartKey)
		}
	}
	for pass, set := range [][]*sst.Table{tables, reopened} {
		what := []string{"written", "reopened"}[pass]
		var all []kv.Entry
		owner := map[string]int{}
		for ti, t := range set {
			var serr error
			func() {
				defer func() {
					if p := recover(); p != nil {
						serr = fmt.Errorf("panic: %v", p)
					}
				}()
				for e := range t.ScanPrefix(nil, &serr) {
					all = append(all, e)
					owner[string(e.Key())] = ti
				}
			}()
			if serr != nil {
				c.Violate(prop+"/sst-scan-error", "%s table %d: full scan: %v", what, ti, serr)
				return
			}
		}
		if len(all) != len(entries) {
			c.Violate(prop+"/sst-roundtrip-count", "%s tables hold %d entries, %d were written (tables: %d)", what, len(all), len(entries), len(set))
			return
		}
		for i, e := range all {
			if !entryEq(e, entries[i]) {
				c.Violate(prop+"/sst-roundtrip-entry", "%s entry %d: got key %q seq %d del %v value %q, wrote key %q seq %d del %v value %q", what, i, e.Key(), e.SeqNum(), e.IsDelete(), e.Value(), entries[i].k, entries[i].seq, entries[i].del, entries[i].v)
				return
			}
		}
		// point lookups: present, absent, before first, after last, between
		lookups := int(c.Cfg("lookups", 20))
		lr := rand.New(rand.NewPCG(uint64(c.Cfg("dataseed", 1)), uint64(7+pass)))
		for li := 0; li < lookups; li++ {
			var k []byte
			switch lr.IntN(5) {
			case 0, 1:
				if len(entries) > 0 {
					k = entries[lr.IntN(len(entries))].k
					break
				}
				fallthrough
			case 2:
				k = genKey(lr, kind)
			case 3:
				if len(entries) > 0 { // just before / after an existing key
					base := entries[lr.IntN(len(entries))].k
					k = append(append([]byte{}, base...), 0)
					if lr.IntN(2) == 0 && len(base) > 0 {
						k = base[:len(base)-1]
					}
				}
			case 4:
				k = [][]byte{{}, {0}, {0xff, 0xff, 0xff, 0xff, 0xff, 0xff}, {0xff}}[lr.IntN(4)]
			}
			idx, present := slices.BinarySearchFunc(entries, k, func(e *rawEntry, t []byte) int { return bytes.Compare(e.k, t) })
			for ti, t := range set {
				var got kv.Entry
				var gerr error
				func() {
					defer func() {
						if p := recover(); p != nil {
							gerr = fmt.Errorf("panic: %v", p)
						}
					}()
					got, gerr = t.Get(k)
				}()
				wantHere := present && owner[string(k)] == ti
				switch {
				case gerr != nil && !errors.Is(gerr, kv.ErrNotFound):
					c.Violate(prop+"/sst-get-error", "%s table %d Get(%q) (present=%v, table range %q..%q): %v", what, ti, k, wantHere, docs2[ti].StartKey, docs2[ti].EndKey, gerr)
					return
				case wantHere && gerr != nil:
					c.Violate(prop+"/sst-get-missing", "%s table %d Get(%q) = not found but the key was written to it (bloom filter or index denies a present key)", what, ti, k)
					return
				case wantHere && !entryEq(got, entries[idx]):
					c.Violate(prop+"/sst-get-wrong", "%s table %d Get(%q) returned key %q seq %d del %v", what, ti, k, got.Key(), got.SeqNum(), got.IsDelete())
					return
				case !wantHere && gerr == nil:
					c.Violate(prop+"/sst-get-phantom", "%s table %d Get(%q) returned key %q although that key is not in the table", what, ti, k, got.Key())
					return
				}
			}
			// prefix scan with the same key as prefix
			var want []*rawEntry
			for _, e := range entries {
				if bytes.HasPrefix(e.k, k) {
					want = append(want, e)
				}
			}
			var got []kv.Entry
			for ti, t := range set {
				var serr error
				for e := range t.ScanPrefix(k, &serr) {
					got = append(got, e)
				}
				if serr != nil {
					c.Violate(prop+"/sst-scan-error", "%s table %d ScanPrefix(%q): %v", what, ti, k, serr)
					return
				}
			}
			if len(got) != len(want) {
				c.Violate(prop+"/sst-prefix-scan", "%s ScanPrefix(%q) returned %d entries, want %d", what, k, len(got), len(want))
				return
			}
			for i := range got {
				if !entryEq(got[i], want[i]) {
					c.Violate(prop+"/sst-prefix-scan", "%s ScanPrefix(%q) entry %d is key %q, want %q", what, k, i, got[i].Key(), want[i].k)
					return
				}
			}
		}
	}
	c.SetState(fmt.Sprintf("n%d,t%d", len(entries)/8, len(tables)))
	c.OpDone()
}

type walOp struct {
	seq  uint64
	k, v []byte
	del  bool
}

func bodyWAL(c *sim.Ctx) {
	prop := c.Prop
	disk := sim.NewDisk(c)
	fs := disk.FS("w", "/wal")
	simrt.SetGroup("w")
	maxSize := uint64(c.Cfg("maxsize", 1000))
	w := wal.NewWriter(fs, 0, maxSize)
	var hmu sync.Mutex // plays the role of db.mu: Rotate and Truncate exclude each other
	hlock := func() {
		for !hmu.TryLock() {
			simrt.Yield("hlock")
		}
	}
	var ops []walOp // everything ever appended, in order
	seq := uint64(0)
	lastCut := uint64(0)   // latest sequence number covered by a Cut (what a flush could have persisted)
	truncated := uint64(0) // highest sequence number passed to a completed Truncate
	pendingTrunc := make(chan uint64, 64)
	done := make(chan struct{})
	c.Go("truncater", func() { // the flush goroutine's share: wal.Truncate(latestSeqNum) under the DB lock
		for {
			var s uint64
			select {
			case s = <-pendingTrunc:
			case <-done:
				return
			}
			simrt.Yield("truncate")
			hlock()
			func() {
				defer func() {
					if p := recover(); p != nil {
						c.Violate(prop+"/wal-truncate-panic", "Truncate(%d): %v", s, p)
					}
				}()
				w.Truncate(s)
			}()
			truncated = max(truncated, s)
			hmu.Unlock()
			c.Probe("truncate")
		}
	})
	keys := [][]byte{{}, []byte("a"), []byte("ab"), {0xff}, {0x00, 0x80}, []byte("k")}
	verify := func(file *wal.Writer, upTo uint64, floor uint64, after uint64, i int) bool {
		rd := wal.NewReader(disk.FS("r", "/wal"), file.Handle(after))
		var got []wal.Entry
		var rerr error
		func() {
			defer func() {
				if p := recover(); p != nil {
					rerr = fmt.Errorf("panic: %v", p)
				}
			}()
			for e, err := range rd.All() {
				if err != nil {
					rerr = err
					return
				}
				got = append(got, e)
			}
		}()
		if rerr != nil {
			c.Violate(prop+"/wal-read-error", "op %d reading %s after %d (truncated up to %d): %v", i, file.Handle(after).Name(), after, floor, rerr)
			return false
		}
		var want []walOp
		for _, o := range ops {
			if o.seq > after && o.seq <= upTo {
				want = append(want, o)
			}
		}
		if len(got) != len(want) {
			c.Violate(prop+"/wal-replay", "op %d replay of %s after %d yields %d operations, %d were appended after the marker (truncated up to %d)", i, file.Handle(after).Name(), after, len(got), len(want), floor)
			return false
		}
		for j := range got {
			if !bytes.Equal(got[j].K, want[j].k) || got[j].Deleted != want[j].del || (!want[j].del && !bytes.Equal(got[j].V, want[j].v)) {
				c.Violate(prop+"/wal-replay", "op %d replay of %s after %d: operation %d is key %q del %v, appended was key %q del %v (seq %d)", i, file.Handle(after).Name(), after, j, got[j].K, got[j].Deleted, want[j].k, want[j].del, want[j].seq)
				return false
			}
		}
		c.Probe("wal-verified")
		return true
	}
	rotate := func(i int, extra uint64) bool {
		hlock()
		sealed := w
		w = w.Rotate(fs)
		upTo, floor := seq, truncated
		hmu.Unlock()
		if err := sealed.Save(); err != nil {
			c.Violate(prop+"/wal-save-error", "op %d: %v", i, err)
			return false
		}
		// every legal start marker: the truncation point and anything later
		for _, after := range []uint64{floor, min(floor+extra, upTo), upTo} {
			if !verify(sealed, upTo, floor, after, i) {
				return false
			}
		}
		return true
	}
	for i, op := range c.Case.Ops {
		if c.Violated() {
			break
		}
		simrt.Yield("op:" + op.K)
		switch op.K {
		case "put":
			seq++
			k := keys[int(op.Arg(0))%len(keys)]
			v := bytes.Repeat([]byte{byte(seq)}, int(op.Arg(1)))
			ops = append(ops, walOp{seq: seq, k: k, v: v})
			if w.Put(k, v, seq) {
				w.Cut()
				lastCut = seq
				c.Probe("wal-full")
			}
		case "del":
			seq++
			k := keys[int(op.Arg(0))%len(keys)]
			ops = append(ops, walOp{seq: seq, k: k, del: true})
			if w.Delete(k, seq) {
				w.Cut()
				lastCut = seq
			}
		case "cut":
			w.Cut()
			lastCut = seq
		case "trunc":
			// a flush finished: everything up to some earlier cut is in SSTs now
			if lastCut > 0 {
				s := lastCut - uint64(op.Arg(0))%min(lastCut, 3)
				select {
				case pendingTrunc <- s:
				default:
				}
			}
		case "rotate":
			if !rotate(i, uint64(op.Arg(0))) {
				close(done)
				return
			}
		}
		c.OpDone()
	}
	if !c.Violated() {
		rotate(len(c.Case.Ops), 1)
	}
	close(done)
}
