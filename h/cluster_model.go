package h

import (
	"context"
	"encoding/json"
	"fmt"
	"sort"
	"strconv"
	"sync"
	"time"

	"google.golang.org/protobuf/types/known/timestamppb"
	"reduction.dev/reduction-protocol/handlerpb"
	"reduction.dev/reduction/proto/workerpb"
	simrt "reduction.dev/reduction/verifsimrt"
	"verif/sim"
)

// cluModel is "the user's program" of the cluster harness and the C01 oracle.
//
// Keyed state is self-verifying: for every key and every split it holds the
// number of that split's records already folded in (namespace "cnt") and a
// running digest of exactly those records in split order (namespace "dig").
// On a record (s, i) with key k the handler requires the supplied cnt[s] to be
// the number of earlier records of split s with key k ("<": a record's effect
// was lost or records were reordered, ">": this record is applied twice) and the
// digest to be the digest of that prefix. This needs no knowledge of where a
// recovery's cut fell, so it is exact for every crash point.
type cluModel struct {
	c    *sim.Ctx
	prop string
	mu   sync.Mutex

	src         *simSource
	prefix      map[string][]int         // "split|key" -> indices (in split order) of the split's records with that key
	posOf       map[string]int           // record id -> position within prefix list
	seen        map[string]int           // record id -> times processed (sink-side; may repeat after failures)
	lastTS      map[string]int64         // per source runner: largest timestamp keyed so far
	deploy      map[string]*opDeployment // operator id -> current deployment
	faults      bool                     // failures are injected in this run
	latency     int
	sleep       time.Duration
	total       int
	applied     int // records applied (counting re-applications after recoveries)
	firstSeenAt map[string]time.Duration
}

type opDeployment struct {
	index  int
	n      int
	kgs    int
	lo, hi int
}

func newCluModel(c *sim.Ctx, src *simSource) *cluModel {
	m := &cluModel{c: c, prop: c.Prop, src: src, prefix: map[string][]int{}, posOf: map[string]int{}, seen: map[string]int{}, lastTS: map[string]int64{}, deploy: map[string]*opDeployment{},
		latency: int(c.Cfg("hlat", 1)), sleep: time.Duration(c.Cfg("hsleep_ms", 0)) * time.Millisecond, firstSeenAt: map[string]time.Duration{}}
	for s, recs := range src.splits {
		for _, r := range recs {
			k := strconv.Itoa(s) + "|" + r.Key
			m.posOf[r.ID()] = len(m.prefix[k])
			m.prefix[k] = append(m.prefix[k], r.Idx)
			m.total++
		}
	}
	return m
}

func digestStep(prev uint64, split, idx int) uint64 {
	h := prev ^ 0x9E3779B97F4A7C15
	h = (h ^ uint64(split+1)) * 1099511628211
	h = (h ^ uint64(idx+1)) * 1099511628211
	return h ^ h>>29
}

func (m *cluModel) digestOf(split int, key string, n int) uint64 {
	d := uint64(0)
	for _, idx := range m.prefix[strconv.Itoa(split)+"|"+key][:n] {
		d = digestStep(d, split, idx)
	}
	return d
}

// refRange: key group range of operator index i of n over g groups - contiguous,
// sizes differing by at most one, the remainder going to the lowest indices
// (the layout persisted state of existing deployments is addressed by).
func refRange(g, n, i int) (lo, hi int) {
	base, extra := g/n, g%n
	lo = i*base + min(i, extra)
	hi = lo + base
	if i < extra {
		hi++
	}
	return
}

func (m *cluModel) onDeploy(opID string, req *workerpb.DeployOperatorRequest) {
	m.mu.Lock()
	defer m.mu.Unlock()
	d := &opDeployment{index: -1, n: len(req.Operators), kgs: int(req.KeyGroupCount)}
	for i, op := range req.Operators {
		if op.Id == opID {
			d.index = i
		}
	}
	if d.index >= 0 {
		d.lo, d.hi = refRange(d.kgs, d.n, d.index)
	}
	m.deploy[opID] = d
}

// --- handler given to every worker; the operator identity comes from the wrapper ---

type cluHandler struct {
	m    *cluModel
	host string
	op   func() string // operator id of this worker
	sr   func() string
}

func (h *cluHandler) KeyEventBatch(ctx context.Context, events [][]byte) ([][]*handlerpb.KeyedEvent, error) {
	m := h.m
	for i := 0; i < m.latency; i++ {
		simrt.Yield("handler.KeyEventBatch")
	}
	out := make([][]*handlerpb.KeyedEvent, len(events))
	m.mu.Lock()
	defer m.mu.Unlock()
	for i, e := range events {
		var r simRecord
		if err := json.Unmarshal(e, &r); err != nil {
			m.c.Violate(m.prop+"/record-corrupt", "source record does not decode: %v", err)
			continue
		}
		out[i] = []*handlerpb.KeyedEvent{{Key: []byte(r.Key), Value: e, Timestamp: timestamppb.New(time.Unix(r.TS, 0))}}
		sr := h.sr()
		m.lastTS[sr] = max(m.lastTS[sr], time.Unix(r.TS, 0).UnixNano())
	}
	return out, nil
}

func (h *cluHandler) ProcessEventBatch(ctx context.Context, req *handlerpb.ProcessEventBatchRequest) (*handlerpb.ProcessEventBatchResponse, error) {
	m := h.m
	for i := 0; i < m.latency; i++ {
		simrt.Yield("handler.ProcessEventBatch")
	}
	if m.sleep > 0 {
		simrt.Sleep("handler-busy", m.sleep) // a slow handler: back-pressure on the source runners
	}
	m.mu.Lock()
	defer m.mu.Unlock()
	c, prop := m.c, m.prop
	opID := h.op()
	dep := m.deploy[opID]
	// supplied state, per key
	type kstate struct {
		cnt map[int]int
		dig map[int]uint64
	}
	states := map[string]*kstate{}
	keyStates := append([]*handlerpb.KeyState(nil), req.KeyStates...)
	sort.SliceStable(keyStates, func(i, j int) bool { return string(keyStates[i].Key) < string(keyStates[j].Key) })
	for _, ks := range keyStates {
		st := &kstate{cnt: map[int]int{}, dig: map[int]uint64{}}
		for _, ns := range ks.StateEntryNamespaces {
			for _, e := range ns.Entries {
				s, err := strconv.Atoi(string(e.Key))
				if err != nil {
					c.Violate(prop+"/state-foreign-entry", "key %q namespace %q has entry %q", ks.Key, ns.Namespace, e.Key)
					continue
				}
				v, _ := strconv.ParseUint(string(e.Value), 10, 64)
				switch ns.Namespace {
				case "cnt":
					st.cnt[s] = int(v)
				case "dig":
					st.dig[s] = v
				default:
					c.Violate(prop+"/state-foreign-namespace", "key %q was given namespace %q", ks.Key, ns.Namespace)
				}
			}
		}
		states[string(ks.Key)] = st
	}
	resp := &handlerpb.ProcessEventBatchResponse{}
	results := map[string]*handlerpb.KeyResult{}
	touched := map[string]map[int]bool{}
	for _, ev := range req.Events {
		ke := ev.GetKeyedEvent()
		if ke == nil {
			continue
		}
		var r simRecord
		if err := json.Unmarshal(ke.Value, &r); err != nil {
			c.Violate(prop+"/record-corrupt", "event value does not decode: %v", err)
			continue
		}
		key := string(ke.Key)
		// C05: processed by the operator whose range contains the key's group
		if dep != nil && dep.index >= 0 {
			g := refKeyGroup(ke.Key, dep.kgs)
			if g < dep.lo || g >= dep.hi {
				c.Violate(prop+"/record-at-non-owner", "record %s (key %q, key group %d of %d) was processed by operator index %d of %d whose range is [%d,%d)", r.ID(), key, g, dep.kgs, dep.index, dep.n, dep.lo, dep.hi)
			}
		}
		st := states[key]
		if st == nil {
			c.Violate(prop+"/state-not-supplied", "record %s: no KeyState for key %q", r.ID(), key)
			continue
		}
		want := m.posOf[r.ID()]
		got := st.cnt[r.Split]
		switch {
		case got > want:
			c.Violate(prop+"/record-applied-twice", "record %s (key %q): state already counts %d records of split %d for this key, only %d precede it - its effect (or a later one's) is already in the state", r.ID(), key, got, r.Split, want)
		case got < want:
			class := prop + "/record-effect-lost"
			if !m.faults {
				class = prop + "/record-lost-or-reordered"
			}
			c.Violate(class, "record %s (key %q): state counts %d records of split %d for this key but %d precede it - an earlier record's effect is missing (lost, or delivered out of split order)", r.ID(), key, got, r.Split, want)
		default:
			if d := m.digestOf(r.Split, key, want); st.dig[r.Split] != d {
				c.Violate(prop+"/state-digest", "record %s (key %q): digest of the %d preceding records of split %d is %d, state holds %d", r.ID(), key, want, r.Split, d, st.dig[r.Split])
			}
		}
		if c.Violated() {
			break
		}
		st.cnt[r.Split] = want + 1
		st.dig[r.Split] = digestStep(st.dig[r.Split], r.Split, r.Idx)
		if touched[key] == nil {
			touched[key] = map[int]bool{}
		}
		touched[key][r.Split] = true
		if results[key] == nil {
			results[key] = &handlerpb.KeyResult{Key: ke.Key}
			resp.KeyResults = append(resp.KeyResults, results[key])
		}
		m.seen[r.ID()]++
		m.applied++
		if _, ok := m.firstSeenAt[r.ID()]; !ok {
			m.firstSeenAt[r.ID()] = c.S.SimTime()
		}
		resp.SinkRequests = append(resp.SinkRequests, &handlerpb.SinkRequest{Value: []byte(r.ID())})
	}
	for key, splits := range touched {
		st := states[key]
		var ss []int
		for s := range splits {
			ss = append(ss, s)
		}
		sort.Ints(ss)
		cn := &handlerpb.StateMutationNamespace{Namespace: "cnt"}
		dn := &handlerpb.StateMutationNamespace{Namespace: "dig"}
		for _, s := range ss {
			k := []byte(strconv.Itoa(s))
			cn.Mutations = append(cn.Mutations, &handlerpb.StateMutation{Mutation: &handlerpb.StateMutation_Put{Put: &handlerpb.PutMutation{Key: k, Value: []byte(strconv.Itoa(st.cnt[s]))}}})
			dn.Mutations = append(dn.Mutations, &handlerpb.StateMutation{Mutation: &handlerpb.StateMutation_Put{Put: &handlerpb.PutMutation{Key: k, Value: []byte(strconv.FormatUint(st.dig[s], 10))}}})
		}
		results[key].StateMutationNamespaces = []*handlerpb.StateMutationNamespace{cn, dn}
	}
	return resp, nil
}

func (m *cluModel) seenAll() (all bool, distinct int) {
	m.mu.Lock()
	defer m.mu.Unlock()
	return len(m.seen) == m.total, len(m.seen)
}

// expectedFinal: the keyed state of a failure-free run over the complete input.
func (m *cluModel) expectedFinal() map[string]nsState {
	out := map[string]nsState{}
	for sk, idxs := range m.prefix {
		var s int
		var key string
		for i := 0; i < len(sk); i++ {
			if sk[i] == '|' {
				s, _ = strconv.Atoi(sk[:i])
				key = sk[i+1:]
				break
			}
		}
		if out[key] == nil {
			out[key] = nsState{"cnt": {}, "dig": {}}
		}
		out[key]["cnt"][strconv.Itoa(s)] = strconv.Itoa(len(idxs))
		out[key]["dig"][strconv.Itoa(s)] = strconv.FormatUint(m.digestOf(s, key, len(idxs)), 10)
	}
	return out
}

func fmtDur(d time.Duration) string { return fmt.Sprintf("%.3fs", d.Seconds()) }
