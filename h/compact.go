package h

import (
	"bytes"
	"encoding/binary"
	"errors"
	"fmt"
	"math/rand/v2"
	"os"
	"sort"
	"strings"

	"reduction.dev/reduction/dkv/kv"
	"reduction.dev/reduction/dkv/sst"
	simrt "reduction.dev/reduction/verifsimrt"
	"verif/sim"
	"verif/simcore"
)

// C18, direct mode: sst.LevelList + sst.Compactor + sst.TableWriter driven
// without the DB, so that every compaction step (minor per level, major with a
// partial pick of a middle level) can be applied to layouts the DB's own
// trigger policy rarely produces, with level-0 tables arriving between the
// computation of a change set and its application. Oracles: map model through
// LevelList.Get / ScanPrefix after every step, and layout validity read from
// the level list's document plus the table files decoded independently.

func genCompactDirect(r *rand.Rand, cs *simcore.Case, tier string) {
	pick := func(v ...int64) int64 { return v[r.IntN(len(v))] }
	cs.Cfg["direct"] = 1
	cs.Cfg["levels"] = pick(2, 3, 4, 6)
	cs.Cfg["l0"] = pick(1, 2, 3, 4)
	cs.Cfg["amp"] = pick(1, 25, 50, 100, 200)
	cs.Cfg["small"] = pick(64, 256, 1024)
	cs.Cfg["mult"] = pick(2, 4, 10)
	cs.Cfg["target"] = pick(64, 128, 300, 1000, 2048)
	cs.Cfg["dataseed"] = int64(r.Uint32())
	n := 10 + r.IntN(40)
	if tier == "thorough" {
		n = 10 + r.IntN(120)
	}
	cs.Ops = nil
	for i := 0; i < n; i++ {
		switch x := r.IntN(10); {
		case x < 5:
			cs.Ops = append(cs.Ops, simcore.Op{K: "flush", A: []int64{1 + int64(r.IntN(6)), int64(r.Uint32())}})
		case x < 8:
			cs.Ops = append(cs.Ops, simcore.Op{K: "compact", A: []int64{int64(r.IntN(3))}}) // arg: flushes arriving before the change set is applied
		default:
			cs.Ops = append(cs.Ops, simcore.Op{K: "fixpoint"})
		}
	}
}

type rawTableEntry struct {
	key string
	seq uint64
	del bool
	val string
}

// decodeTableFile parses an SST file written by the engine, independently of
// its reader: entries are [u32le len][key][u64le seq][u8 tombstone][u32le len][value]
// up to the entries size stored in the last 12 bytes ([u64le entriesSize][u32le version]).
func decodeTableFile(b []byte) ([]rawTableEntry, error) {
	if len(b) < 12 {
		return nil, fmt.Errorf("table file of %d bytes", len(b))
	}
	end := int(binary.LittleEndian.Uint64(b[len(b)-12:]))
	if end > len(b)-12 {
		return nil, fmt.Errorf("entries size %d beyond file of %d bytes", end, len(b))
	}
	var out []rawTableEntry
	p := 0
	for p < end {
		if p+4 > end {
			return nil, fmt.Errorf("truncated key length at %d", p)
		}
		kl := int(binary.LittleEndian.Uint32(b[p:]))
		p += 4
		if p+kl+9 > end {
			return nil, fmt.Errorf("truncated entry at %d", p)
		}
		e := rawTableEntry{key: string(b[p : p+kl])}
		p += kl
		e.seq = binary.LittleEndian.Uint64(b[p:])
		p += 8
		e.del = b[p] == 1
		p++
		if !e.del {
			if p+4 > end {
				return nil, fmt.Errorf("truncated value length at %d", p)
			}
			vl := int(binary.LittleEndian.Uint32(b[p:]))
			p += 4
			if p+vl > end {
				return nil, fmt.Errorf("truncated value at %d", p)
			}
			e.val = string(b[p : p+vl])
			p += vl
		}
		out = append(out, e)
	}
	return out, nil
}

func bodyCompactDirect(c *sim.Ctx) {
	prop := c.Prop
	disk := sim.NewDisk(c)
	fs := disk.FS("db", "/tables")
	simrt.SetGroup("db")
	tw := sst.NewTableWriter(fs, 0)
	levels := int(c.Cfg("levels", 3))
	ll := sst.NewEmptyLevelList(levels)
	comp := &sst.Compactor{
		TableWriter: tw, L0RunNumCompactionTrigger: int(c.Cfg("l0", 2)), MaxSizeAmplificationPercent: int(c.Cfg("amp", 50)),
		SmallestLevelSize: c.Cfg("small", 256), LevelSizeMultiplier: int(c.Cfg("mult", 10)), TargetTableSize: c.Cfg("target", 300),
	}
	model := map[string]string{}
	seq := uint64(0)
	states := map[string]bool{}

	flush := func(n int, seed uint64) bool {
		r := rand.New(rand.NewPCG(seed, 17))
		seen := map[string]bool{}
		var es []*rawEntry
		for i := 0; i < n; i++ {
			k := dkvKeys[r.IntN(len(dkvKeys))]
			if seen[k] {
				continue
			}
			seen[k] = true
			seq++
			e := &rawEntry{k: []byte(k), seq: seq, del: r.IntN(4) == 0}
			if e.del {
				delete(model, k)
			} else {
				e.v = []byte(fmt.Sprintf("v%d.%s", seq, bytes.Repeat([]byte("x"), r.IntN(30))))
				model[k] = string(e.v)
			}
			es = append(es, e)
		}
		sort.Slice(es, func(i, j int) bool { return bytes.Compare(es[i].k, es[j].k) < 0 })
		t, err := tw.Write(func(yield func(kv.Entry) bool) {
			for _, e := range es {
				if !yield(e) {
					return
				}
			}
		})
		if err != nil {
			c.Violate(prop+"/flush-error", "%v", err)
			return false
		}
		cs := &sst.ChangeSet{}
		cs.AddTables(0, t)
		ll = ll.NewWithChangeSet(cs)
		c.Probe("flush")
		return true
	}

	check := func(step string) bool {
		// visible contents
		for _, k := range dkvKeys {
			e, err := ll.Get([]byte(k))
			want, has := model[k]
			switch {
			case err != nil && !errors.Is(err, kv.ErrNotFound):
				c.Violate(prop+"/get-error", "%s: Get(%q): %v", step, k, err)
				return false
			case err != nil || e.IsDelete():
				if has {
					c.Violate(prop+"/compaction-lost-value", "%s: Get(%q) absent/deleted, want %q", step, k, want)
					return false
				}
			case !has:
				c.Violate(prop+"/compaction-resurrected-value", "%s: Get(%q) = %q but the key is deleted/absent", step, k, e.Value())
				return false
			case string(e.Value()) != want:
				c.Violate(prop+"/compaction-stale-value", "%s: Get(%q) = %q want %q", step, k, e.Value(), want)
				return false
			}
		}
		var serr error
		got := map[string]string{}
		var order []string
		for e := range ll.ScanPrefix(nil, &serr) {
			got[string(e.Key())] = string(e.Value())
			order = append(order, string(e.Key()))
		}
		if serr != nil {
			c.Violate(prop+"/scan-error", "%s: %v", step, serr)
			return false
		}
		if !sort.StringsAreSorted(order) || len(order) != len(got) {
			c.Violate(prop+"/scan-order", "%s: scan keys %q", step, order)
			return false
		}
		if fmt.Sprint(sortedKV(got)) != fmt.Sprint(sortedKV(model)) {
			c.Violate(prop+"/scan-contents", "%s: scan %v want %v", step, sortedKV(got), sortedKV(model))
			return false
		}
		// layout validity, from the document and the files
		doc := ll.Document()
		newestAbove := map[string]uint64{} // key -> newest sequence number seen in shallower levels
		shape := ""
		for li, level := range doc {
			shape += fmt.Sprintf("%d,", len(level))
			levelNewest := map[string]uint64{}
			for ti, td := range level {
				if li >= 1 && ti > 0 {
					prev := level[ti-1]
					if bytes.Compare(prev.StartKey, td.StartKey) > 0 {
						c.Violate(prop+"/level-not-sorted", "%s: level %d table %d starts at %q after table %d starting at %q", step, li, ti, td.StartKey, ti-1, prev.StartKey)
						return false
					}
					if bytes.Compare(prev.EndKey, td.StartKey) >= 0 {
						c.Violate(prop+"/level-overlap", "%s: level %d tables %d [%q..%q] and %d [%q..%q] overlap", step, li, ti-1, prev.StartKey, prev.EndKey, ti, td.StartKey, td.EndKey)
						return false
					}
				}
				raw, ok := disk.ReadRaw(td.URI)
				if !ok {
					c.Violate(prop+"/table-file-missing", "%s: level %d references %s which does not exist", step, li, td.URI)
					return false
				}
				ents, err := decodeTableFile(raw)
				if err != nil {
					c.Violate(prop+"/table-file-corrupt", "%s: %s: %v", step, td.URI, err)
					return false
				}
				for i, e := range ents {
					if i > 0 && ents[i-1].key >= e.key {
						c.Violate(prop+"/table-not-sorted", "%s: %s holds key %q after %q", step, td.URI, e.key, ents[i-1].key)
						return false
					}
					if up, ok := newestAbove[e.key]; ok && li >= 1 && e.seq > up {
						c.Violate(prop+"/newer-beneath-older", "%s: key %q has sequence %d in level %d but only %d in the levels above it", step, e.key, e.seq, li, up)
						return false
					}
					levelNewest[e.key] = max(levelNewest[e.key], e.seq)
				}
			}
			for k, s := range levelNewest {
				if cur, ok := newestAbove[k]; !ok || s > cur {
					// shallower levels win; only record if nothing above holds the key
					if !ok {
						newestAbove[k] = s
					}
				}
			}
		}
		states[shape] = true
		return true
	}

	for i, op := range c.Case.Ops {
		if c.Violated() {
			return
		}
		simrt.Yield("op:" + op.K)
		switch op.K {
		case "flush":
			if !flush(int(op.Arg(0)), uint64(op.Arg(1))) {
				return
			}
		case "compact", "fixpoint":
			for round := 0; round < 30; round++ {
				cs, err := comp.Compact(ll)
				if err != nil {
					c.Violate(prop+"/compaction-error", "op %d: %v", i, err)
					return
				}
				if cs == nil {
					break
				}
				c.Probe("compaction-step")
				// new level-0 tables arrive between computing the change set and applying it
				for f := int64(0); op.K == "compact" && f < op.Arg(0); f++ {
					if !flush(2, uint64(i)*131+uint64(f)) {
						return
					}
					c.Probe("flush-during-compaction")
				}
				ll = ll.NewWithChangeSet(cs)
				if !check(fmt.Sprintf("op %d (%s) round %d", i, op.K, round)) {
					return
				}
				if op.K == "compact" {
					break
				}
			}
		}
		if !check(fmt.Sprintf("op %d (%s)", i, op.K)) {
			return
		}
		c.OpDone()
	}
	var ss []string
	for s := range states {
		ss = append(ss, "L"+s)
	}
	sort.Strings(ss)
	c.SetState(joinMax(ss, 40))
}

func sortedKV(m map[string]string) []string {
	var out []string
	for k, v := range m {
		out = append(out, fmt.Sprintf("%q=%q", k, v))
	}
	sort.Strings(out)
	return out
}

func joinMax(ss []string, n int) string {
	if len(ss) > n {
		ss = ss[:n]
	}
	out := ""
	for i, s := range ss {
		if i > 0 {
			out += "|"
		}
		out += s
	}
	return out
}

// debugDumpDisk (VERIF_NEEDLE=a,b set, run violated): where on the simulated disk do
// entries whose key contains one of the needles live - diagnosis aid only.
var debugDisk *sim.Disk

func debugDumpDisk(c *sim.Ctx, disk *sim.Disk) {
	nd := os.Getenv("VERIF_NEEDLE")
	if nd == "" || !c.Violated() || disk == nil {
		return
	}
	needles := strings.Split(nd, ",")
	for _, p := range disk.Paths() {
		raw, _ := disk.ReadRaw(p)
		switch {
		case strings.HasSuffix(p, ".sst"):
			ents, err := decodeTableFile(raw)
			if err != nil {
				fmt.Fprintf(os.Stderr, "DUMP %s: %v\n", p, err)
				continue
			}
			for _, e := range ents {
				for _, n := range needles {
					if strings.Contains(e.key, n) {
						fmt.Fprintf(os.Stderr, "DUMP %s key=%q seq=%d del=%v val=%q (by %s)\n", p, e.key, e.seq, e.del, e.val, disk.WhoWrote(p))
					}
				}
			}
			if len(ents) > 0 {
				fmt.Fprintf(os.Stderr, "DUMP %s %d entries [%q .. %q]\n", p, len(ents), ents[0].key, ents[len(ents)-1].key)
			}
		case strings.HasSuffix(p, "checkpoints"):
			fmt.Fprintf(os.Stderr, "DUMP %s: %s\n", p, raw)
		case strings.HasSuffix(p, ".wal"):
			for _, n := range needles {
				if bytes.Contains(raw, []byte(n)) {
					fmt.Fprintf(os.Stderr, "DUMP %s (%d bytes) contains %q\n", p, len(raw), n)
				}
			}
		}
	}
}
