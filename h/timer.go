package h

import (
	"fmt"
	"math/rand/v2"
	"sort"
	"time"

	"google.golang.org/protobuf/types/known/timestamppb"
	"reduction.dev/reduction/dkv"
	"reduction.dev/reduction/dkv/recovery"
	"reduction.dev/reduction/partitioning"
	"reduction.dev/reduction/proto/workerpb"
	simrt "reduction.dev/reduction/verifsimrt"
	"reduction.dev/reduction/workers/operator"
	"verif/sim"
	"verif/simcore"
)

// H-TIMER: the real operator.TimerRegistry / TimerStore / KeyGroupPriorityQueue,
// util/ds partitioned queue, sorted cache and heap over the real dkv.DB on the
// simulated disk. The simulator owns the DB's background flush / compaction
// interleaving, the crash point of a checkpoint/restore, and (through the swarm)
// the cache size relative to the timer set.
var HTimer = &sim.Harness{
	Name: "H-TIMER",
	Gen:  genTimer,
	Body: bodyTimer,
	Real: []string{"operator.TimerRegistry", "operator.TimerStore", "operator.KeyGroupPriorityQueue", "util/ds.PartitionedPriorityQueue", "util/ds.SortedCache", "util/ds.Heap", "util/binu", "partitioning.KeySpace", "dkv.DB (all of dkv/)"},
	Stub: []string{"storage.FileSystem -> SimDisk", "operator event loop (the harness task calls SetTimer / AdvanceWatermark directly, sequentially, as the loop does)"},
}

func genTimer(r *rand.Rand, prop, tier string) simcore.Case {
	cs := genDKV(r, "C07", tier) // DKV sizing + policy swarm
	cs.Ops = nil
	pick := func(v ...int64) int64 { return v[r.IntN(len(v))] }
	cs.Cfg["kgs"] = pick(1, 2, 3, 8)
	cs.Cfg["cache"] = pick(1, 30, 60, 120, 400, 1<<30) // bytes for the whole store (divided per key group)
	cs.Cfg["senders"] = pick(1, 1, 2, 3)
	cs.Cfg["tkeys"] = int64(1 + r.IntN(6))
	tmax := pick(5, 20, 100)
	cs.Cfg["tmax"] = tmax
	n := 10 + r.IntN(70)
	if tier == "thorough" {
		n = 10 + r.IntN(250)
	}
	wSet, wAdv, wCk := 3+r.IntN(6), 1+r.IntN(3), r.IntN(2)
	for i := 0; i < n; i++ {
		x := r.IntN(wSet + wAdv + wCk)
		switch {
		case x < wSet:
			rep := int64(1)
			if r.IntN(8) == 0 {
				rep = int64(1 + r.IntN(50))
			}
			cs.Ops = append(cs.Ops, simcore.Op{K: "set", A: []int64{int64(r.IntN(int(cs.Cfg["tkeys"]))), 1 + int64(r.IntN(int(tmax))), rep}})
		case x < wSet+wAdv:
			cs.Ops = append(cs.Ops, simcore.Op{K: "adv", A: []int64{int64(r.IntN(int(cs.Cfg["senders"]))), int64(r.IntN(4))}})
		default:
			cs.Ops = append(cs.Ops, simcore.Op{K: "restore", A: []int64{int64(r.IntN(2))}})
		}
	}
	return cs
}

type timerKey struct {
	key string
	t   int64
}

func ts(sec int64) time.Time { return time.Unix(sec, 0) }

func bodyTimer(c *sim.Ctx) {
	prop := c.Prop
	installDKVHooks(c)
	r := &dkvRun{c: c, disk: sim.NewDisk(c)}
	inst, err := r.open(nil, nil)
	if err != nil {
		c.Violate(prop+"/open-failed", "%v", err)
		return
	}
	r.cur = inst
	kgs := int(c.Cfg("kgs", 1))
	ks := partitioning.NewKeySpace(kgs, 1)
	rng := ks.KeyGroupRanges()[0]
	nSenders := int(c.Cfg("senders", 1))
	senders := make([]string, nSenders)
	for i := range senders {
		senders[i] = fmt.Sprintf("sr%d", i)
	}
	cache := uint64(c.Cfg("cache", 1<<30))
	newRegistry := func(db *dkv.DB) *operator.TimerRegistry {
		return operator.NewTimerRegistry(operator.NewTimerStore(db, ks, rng, cache), senders)
	}
	reg := newRegistry(inst.db)

	// reference model
	pending := map[timerKey]bool{}
	wm := make([]int64, nSenders) // per sender, seconds; epoch = 0
	composite := func() int64 {
		m := wm[0]
		for _, w := range wm[1:] {
			m = min(m, w)
		}
		return m
	}
	cur := int64(0) // operator watermark = composite of what was reported so far
	ckptID := uint64(0)

	var step func(i int, op simcore.Op)
	for i, op := range c.Case.Ops {
		if c.Violated() {
			return
		}
		simrt.Yield("op:" + op.K)
		if step == nil {
			step = func(i int, op simcore.Op) {
				timerStep(c, r, i, op, &reg, newRegistry, pending, wm, &cur, &ckptID, senders, composite)
			}
		}
		step(i, op)
		c.OpDone()
	}
	if step == nil {
		step = func(i int, op simcore.Op) {
			timerStep(c, r, i, op, &reg, newRegistry, pending, wm, &cur, &ckptID, senders, composite)
		}
	}
	if c.Violated() {
		return
	}
	// drain: every sender jumps past every timer (part of the harness, not of the
	// shrinkable workload, so the final emptiness check is always meaningful)
	drain := make([]simcore.Op, 0, nSenders)
	for s := 0; s < nSenders; s++ {
		drain = append(drain, simcore.Op{K: "adv", A: []int64{int64(s), c.Cfg("tmax", 100) + 10}})
	}
	for i, op := range drain {
		simrt.Yield("drain")
		step(len(c.Case.Ops)+i, op)
		if c.Violated() {
			return
		}
	}
	if len(pending) != 0 {
		c.Violate(prop+"/timer-missing", "at the end %d timers never fired although every sender passed them: %v", len(pending), pending)
	}
	if err := r.cur.db.WaitOnTasks(); err != nil {
		c.Violate(prop+"/background-task-error", "WaitOnTasks: %v", err)
	}
	c.SetState(r.abstractState(r.cur.db))
}

func timerStep(c *sim.Ctx, r *dkvRun, i int, op simcore.Op, regp **operator.TimerRegistry, newRegistry func(*dkv.DB) *operator.TimerRegistry,
	pending map[timerKey]bool, wm []int64, curp *int64, ckptIDp *uint64, senders []string, composite func() int64) {
	prop := c.Prop
	nSenders := len(senders)
	reg := *regp
	cur := *curp
	defer func() { *curp = cur }()
	simrt.SetGroup(r.cur.node)
	{
		switch op.K {
		case "set":
			k := fmt.Sprintf("tk%d", op.Arg(0))
			t := op.Arg(1)
			for rep := int64(0); rep < max(op.Arg(2), 1); rep++ {
				reg.SetTimer([]byte(k), ts(t))
			}
			if t > cur {
				pending[timerKey{k, t}] = true
			} else {
				c.Probe("set-not-after-watermark")
			}
			if op.Arg(2) > 1 {
				c.Probe("repeated-set")
			}
		case "adv":
			s := int(op.Arg(0)) % nSenders
			w := wm[s] + op.Arg(1) // per-sender watermarks never decrease (C11)
			wm[s] = w
			cur = composite()
			var fired []timerKey
			for k, t := range reg.AdvanceWatermark(senders[s], &workerpb.Watermark{Timestamp: timestamppb.New(ts(w))}) {
				fired = append(fired, timerKey{string(k), t.Unix()})
			}
			var want []timerKey
			for tk := range pending {
				if tk.t <= cur {
					want = append(want, tk)
				}
			}
			less := func(a, b timerKey) bool { return a.t < b.t || (a.t == b.t && a.key < b.key) }
			sort.Slice(want, func(a, b int) bool { return less(want[a], want[b]) })
			for j := 1; j < len(fired); j++ {
				if fired[j].t < fired[j-1].t {
					c.Violate(prop+"/timer-order", "op %d advance to %d: fired %v, not in non-decreasing timestamp order", i, cur, fired)
				}
			}
			got := append([]timerKey(nil), fired...)
			sort.Slice(got, func(a, b int) bool { return less(got[a], got[b]) })
			if fmt.Sprint(got) != fmt.Sprint(want) {
				class := prop + "/timer-missing"
				seen := map[timerKey]int{}
				for _, f := range got {
					seen[f]++
					if seen[f] > 1 {
						class = prop + "/timer-duplicate"
					}
				}
				if class != prop+"/timer-duplicate" {
					for _, f := range got {
						if !pending[f] {
							class = prop + "/timer-spurious"
							if f.t > cur {
								class = prop + "/timer-early"
							}
						}
					}
				}
				c.Violate(class, "op %d advance sender %d to %d (operator watermark %d): fired %v want %v", i, s, w, cur, got, want)
			}
			for _, f := range want {
				delete(pending, f)
			}
			if len(want) > 0 {
				c.ProbeN("timers-fired", len(want))
			}
		case "restore":
			// checkpoint, then (optionally after a crash of the old instance) a new
			// operator incarnation restores: timers pending at the checkpoint stay
			// pending, fired ones do not come back; watermarks restart at the epoch
			*ckptIDp++
			h, err := r.cur.db.Checkpoint(*ckptIDp)()
			if err != nil {
				c.Violate(prop+"/checkpoint-error", "op %d: %v", i, err)
				return
			}
			old := r.cur
			if op.Arg(0) == 1 {
				c.S.KillGroup(old.node)
				r.disk.Kill(old.node)
				dkv.VerifResetQueues()
				c.Fault("crash")
			} else if err := old.db.Close(); err != nil {
				c.Violate(prop+"/background-task-error", "op %d Close: %v", i, err)
				return
			}
			ni, err := r.open([]recovery.CheckpointHandle{h}, nil)
			if err != nil {
				c.Violate(prop+"/restore-failed", "op %d: %v", i, err)
				return
			}
			r.cur = ni
			reg = newRegistry(ni.db)
			*regp = reg
			for s := range wm {
				wm[s] = 0
			}
			cur = 0
			c.Probe("restore")
		}
	}
}
