package h

import (
	"encoding/base64"
	"encoding/binary"
	"errors"
	"fmt"
	"math"
	"math/rand/v2"
	"sort"
	"strings"
	"sync"

	gproto "google.golang.org/protobuf/proto"
	"reduction.dev/reduction/connectors"
	"reduction.dev/reduction/proto/jobpb"
	"reduction.dev/reduction/proto/snapshotpb"
	"reduction.dev/reduction/storage/snapshots"
	simrt "reduction.dev/reduction/verifsimrt"
	"verif/sim"
	"verif/simcore"
)

// H-STORE: the real snapshots.Store (job checkpoint assembly, asynchronous
// publication, retention notification, LoadCheckpoint) on the simulated
// storage location. The simulator owns the interleaving of the caller with the
// store's publication / removal / notification goroutines, and the crash point
// of a restart. Oracles: a reference checkpoint state machine (C12) and
// independent decoding of what is on disk (C13).
var HStore = &sim.Harness{
	Name: "H-STORE",
	Gen:  genStore,
	Body: bodyStore,
	Real: []string{"storage/snapshots.Store", "storage/snapshots.jobSnapshot", "storage/snapshots savepoint artifact code (when a savepoint completes)", "generated snapshotpb/jobpb protobuf code"},
	Stub: []string{"locations.StorageLocation -> SimDisk location view (atomic per-call writes, WalkDir listing order)", "connectors.SourceSplitter (returns an opaque checkpoint blob)", "jobs.Job (the harness issues the store calls the job would)"},
}

func genStore(r *rand.Rand, prop, tier string) simcore.Case {
	cs := simcore.Case{Cfg: map[string]int64{}}
	sim.DrawPolicy(r, &cs)
	cs.Cfg["ops"] = int64(1 + r.IntN(4))
	cs.Cfg["srs"] = int64(1 + r.IntN(4))
	// ids around the boundaries of the base64 alphabet of the path segment
	starts := []int64{0, 0, 1, 2, 17, 30, 61, 62, 63, 64, 125, 126, 4094, 262142, 4294967294}
	cs.Cfg["start"] = starts[r.IntN(len(starts))]
	n := 10 + r.IntN(60)
	if tier == "thorough" {
		n = 10 + r.IntN(200)
	}
	crashW := 0
	if prop == "C13" {
		crashW = 1 + r.IntN(2)
	} else if r.IntN(3) == 0 {
		crashW = 1
	}
	for i := 0; i < n; i++ {
		x := r.IntN(20 + crashW)
		switch {
		case x < 3:
			cs.Ops = append(cs.Ops, simcore.Op{K: "create"})
		case x < 4:
			cs.Ops = append(cs.Ops, simcore.Op{K: "savepoint"})
		case x < 10:
			// operator ack: who, id offset relative to pending (0 = right id), 0/1 unknown sender
			cs.Ops = append(cs.Ops, simcore.Op{K: "opack", A: []int64{int64(r.IntN(4)), ackOffset(r), int64(bit(r, 12))}})
		case x < 16:
			cs.Ops = append(cs.Ops, simcore.Op{K: "srack", A: []int64{int64(r.IntN(4)), ackOffset(r), int64(bit(r, 12)), int64(r.IntN(3))}})
		case x < 19:
			// complete the pending checkpoint quickly (all missing acks, correct ids)
			cs.Ops = append(cs.Ops, simcore.Op{K: "finish"})
		case x < 20:
			cs.Ops = append(cs.Ops, simcore.Op{K: "settle"})
		default:
			cs.Ops = append(cs.Ops, simcore.Op{K: "crash"})
		}
	}
	return cs
}

func bit(r *rand.Rand, oneIn int) int {
	if r.IntN(oneIn) == 0 {
		return 1
	}
	return 0
}

// ackOffset: mostly the right id, sometimes older / future ones.
func ackOffset(r *rand.Rand) int64 {
	switch r.IntN(10) {
	case 0:
		return -1
	case 1:
		return 1
	case 2:
		return -2
	}
	return 0
}

// pathSegment computed independently of the repository (base64url, no padding,
// of the big-endian bytes of MaxUint64 - id).
func refPathSegment(id uint64) string {
	var b [8]byte
	binary.BigEndian.PutUint64(b[:], math.MaxUint64-id)
	return base64.RawURLEncoding.EncodeToString(b[:])
}

type stubSplitter struct {
	connectors.UnimplementedSourceSplitter
	mu sync.Mutex
	n  int
}

func (s *stubSplitter) IsSourceSplitter() {}
func (s *stubSplitter) Checkpoint() []byte {
	s.mu.Lock()
	defer s.mu.Unlock()
	s.n++
	return []byte(fmt.Sprintf("splitter-state-%d", s.n))
}

type pendingModel struct {
	id        uint64
	ops       map[string]bool // expected operator -> acked
	srs       map[string]bool
	opPayload map[string]string
	srStates  map[string][]string
	savepoint bool
}

func (p *pendingModel) complete() bool {
	for _, v := range p.ops {
		if !v {
			return false
		}
	}
	for _, v := range p.srs {
		if !v {
			return false
		}
	}
	return true
}

type storeRun struct {
	c    *sim.Ctx
	disk *sim.Disk
	mu   sync.Mutex // real; protects the model against the disk hook (called from store goroutines)

	completed    map[uint64]*pendingModel // checkpoints whose acks are complete (may be published)
	published    map[uint64]bool          // snapshot file fully written at some point
	onDisk       map[uint64]bool          // snapshot file currently present
	newest       uint64                   // highest id ever fully written
	hasNewest    bool
	incarnation  int
	lastRetained uint64 // highest id announced for retention in this incarnation
}

func (r *storeRun) snapshotPathID(p string) (uint64, bool) {
	if !strings.HasSuffix(p, ".snapshot") {
		return 0, false
	}
	b, ok := r.disk.ReadRaw(p)
	if !ok {
		return 0, false
	}
	var jc snapshotpb.JobCheckpoint
	if err := gproto.Unmarshal(b, &jc); err != nil {
		return 0, false
	}
	return jc.Id, true
}

func bodyStore(c *sim.Ctx) {
	prop := c.Prop
	r := &storeRun{c: c, disk: sim.NewDisk(c), completed: map[uint64]*pendingModel{}, published: map[uint64]bool{}, onDisk: map[uint64]bool{}}
	nOps, nSRs := int(c.Cfg("ops", 1)), int(c.Cfg("srs", 1))
	opIDs, srIDs := make([]string, nOps), make([]string, nSRs)
	for i := range opIDs {
		opIDs[i] = fmt.Sprintf("op%d", i)
	}
	for i := range srIDs {
		srIDs[i] = fmt.Sprintf("sr%d", i)
	}

	// --- disk monitors (C12 publication rule, C13 retention rule) ---
	r.disk.OnPublish = func(node, p string, data []byte) {
		if !strings.HasSuffix(p, ".snapshot") {
			return
		}
		var jc snapshotpb.JobCheckpoint
		if err := gproto.Unmarshal(data, &jc); err != nil {
			c.Violate(prop+"/snapshot-unparsable", "published %s does not decode: %v", p, err)
			return
		}
		r.mu.Lock()
		defer r.mu.Unlock()
		if want := "job-" + refPathSegment(jc.Id) + ".snapshot"; !strings.HasSuffix(p, "/"+want) {
			c.Violate(prop+"/snapshot-path", "checkpoint %d published at %s, expected file name %s", jc.Id, p, want)
		}
		m := r.completed[jc.Id]
		if m == nil {
			c.Violate(prop+"/published-incomplete", "job checkpoint %d was published although not every operator and source runner had acknowledged it", jc.Id)
			return
		}
		// exactly one entry per operator
		seen := map[string]int{}
		for _, oc := range jc.OperatorCheckpoints {
			seen[oc.OperatorId]++
			if oc.CheckpointId != jc.Id {
				c.Violate(prop+"/published-foreign-ack", "job checkpoint %d contains operator %s's checkpoint %d", jc.Id, oc.OperatorId, oc.CheckpointId)
			}
			if want, ok := m.opPayload[oc.OperatorId]; ok && want != oc.DkvFileUri {
				c.Violate(prop+"/published-wrong-ack", "job checkpoint %d entry of %s has uri %q, first acknowledged %q", jc.Id, oc.OperatorId, oc.DkvFileUri, want)
			}
		}
		for _, op := range sortedKeysAny(m.ops) {
			if seen[op] != 1 {
				c.Violate(prop+"/published-operator-entries", "job checkpoint %d has %d entries for operator %s (want exactly 1); entries: %v", jc.Id, seen[op], op, seen)
			}
		}
		if len(seen) != len(m.ops) {
			c.Violate(prop+"/published-operator-entries", "job checkpoint %d has entries for %v, expected operators %v", jc.Id, seen, keysOf(m.ops))
		}
		// all reported split positions, each once
		var want, got []string
		for _, sts := range m.srStates {
			want = append(want, sts...)
		}
		if len(jc.SourceCheckpoints) != 1 {
			c.Violate(prop+"/published-source-entries", "job checkpoint %d has %d source checkpoints", jc.Id, len(jc.SourceCheckpoints))
			return
		}
		for _, b := range jc.SourceCheckpoints[0].SplitStates {
			got = append(got, string(b))
		}
		sort.Strings(want)
		sort.Strings(got)
		if fmt.Sprint(want) != fmt.Sprint(got) {
			c.Violate(prop+"/published-split-states", "job checkpoint %d split states %v, reported %v", jc.Id, got, want)
		}
		r.published[jc.Id] = true
		r.onDisk[jc.Id] = true
		if !r.hasNewest || jc.Id > r.newest {
			r.newest, r.hasNewest = jc.Id, true
		}
		c.Probe("published")
	}
	r.disk.OnRemove = func(node, p string, data []byte) {
		if !strings.HasSuffix(p, ".snapshot") {
			return
		}
		var jc snapshotpb.JobCheckpoint
		if gproto.Unmarshal(data, &jc) != nil {
			return
		}
		r.mu.Lock()
		defer r.mu.Unlock()
		delete(r.onDisk, jc.Id)
		if r.hasNewest && jc.Id == r.newest {
			c.Violate(prop+"/removed-newest", "the snapshot of the newest completed checkpoint %d was removed (%s)", jc.Id, p)
		}
		c.Probe("removed-obsolete")
	}

	// --- preload an arbitrary starting id ---
	start := uint64(c.Cfg("start", 0))
	loc := func(node string) *sim.Loc { return r.disk.Loc(node, "/job") }
	if start > 0 {
		m := &pendingModel{id: start, ops: map[string]bool{}, srs: map[string]bool{}, opPayload: map[string]string{}, srStates: map[string][]string{"pre": {"pre-split"}}}
		r.completed[start] = m
		jc := &snapshotpb.JobCheckpoint{Id: start, SourceCheckpoints: []*snapshotpb.SourceCheckpoint{{CheckpointId: start, SplitStates: [][]byte{[]byte("pre-split")}}}}
		b, _ := gproto.Marshal(jc)
		r.disk.PublishRaw("preload", "/job/checkpoints/job-"+refPathSegment(start)+".snapshot", b)
	}

	var store *snapshots.Store
	var retainedCh chan []uint64
	var lastReturned uint64
	var haveReturned bool
	var pending *pendingModel
	var lastCurrent uint64
	node := ""
	boot := func() bool {
		r.incarnation++
		node = fmt.Sprintf("job%d", r.incarnation)
		simrt.SetGroup(node)
		retainedCh = make(chan []uint64)
		ch := retainedCh
		r.mu.Lock()
		r.lastRetained = 0
		r.mu.Unlock()
		store = snapshots.NewStore(&snapshots.NewStoreParams{
			FileStore: loc(node), SavepointsPath: "savepoints", CheckpointsPath: "checkpoints",
			ErrChan: make(chan error, 100), RetainedCheckpointsUpdated: ch,
		})
		store.RegisterSourceSplitter(&stubSplitter{})
		// consumer of retention notifications (the job forwards them to the operators)
		c.Go("retained-"+node, func() {
			for ids := range ch {
				simrt.Yield("retained-received")
				r.mu.Lock()
				maxID := uint64(0)
				for _, id := range ids {
					maxID = max(maxID, id)
				}
				// A notification may be *delayed* (any asynchronous hand-over is), so it
				// is judged against what was announced before, not against what has
				// been published meanwhile: the last word must never be an older id.
				if maxID < r.lastRetained {
					c.Violate(prop+"/retained-older", "operators were told to retain only %v after they had been told to retain %d (newest completed: %d)", ids, r.lastRetained, r.newest)
				}
				if !r.published[maxID] {
					c.Violate(prop+"/retained-unpublished", "operators were told to retain %v which was never published", ids)
				}
				r.lastRetained = max(r.lastRetained, maxID)
				r.mu.Unlock()
				c.Probe("retained-notified")
			}
		})
		if err := loadCheckpoint(store); err != nil {
			c.Violate(prop+"/load-failed", "LoadCheckpoint: %v", err)
			return false
		}
		// C13: the store must resume from the highest completed checkpoint present in storage
		r.mu.Lock()
		var want uint64
		have := false
		for _, p := range r.disk.Paths() {
			if id, ok := r.snapshotPathID(p); ok && (!have || id > want) {
				want, have = id, true
			}
		}
		r.mu.Unlock()
		cur := store.CurrentCheckpoint()
		switch {
		case have && cur == nil:
			c.Violate(prop+"/load-missed", "restart found no checkpoint although snapshot %d is in storage", want)
			return false
		case have && cur.Id != want:
			c.Violate(prop+"/load-not-newest", "restart resumed from checkpoint %d although snapshot %d is in storage (files: %v)", cur.Id, want, snapshotFiles(r.disk))
			return false
		case !have && cur != nil:
			c.Violate(prop+"/load-phantom", "restart resumed from checkpoint %d but no snapshot is in storage", cur.Id)
			return false
		}
		pending = nil
		haveReturned = false
		lastCurrent = 0
		if cur != nil {
			lastReturned, haveReturned = cur.Id, true
			lastCurrent = cur.Id
		}
		return true
	}
	if !boot() {
		return
	}

	checkID := func(i int, id uint64, what string) {
		if haveReturned && id <= lastReturned {
			c.Violate(prop+"/id-not-increasing", "op %d %s returned id %d after %d", i, what, id, lastReturned)
		}
		lastReturned, haveReturned = id, true
	}
	newPending := func(id uint64, sp bool) {
		pending = &pendingModel{id: id, ops: map[string]bool{}, srs: map[string]bool{}, opPayload: map[string]string{}, srStates: map[string][]string{}, savepoint: sp}
		for _, o := range opIDs {
			pending.ops[o] = false
		}
		for _, s := range srIDs {
			pending.srs[s] = false
		}
	}
	markComplete := func() {
		if pending != nil && pending.complete() {
			r.mu.Lock()
			r.completed[pending.id] = pending
			r.mu.Unlock()
			pending = nil
			c.Probe("completed")
		}
	}
	opAck := func(i int, who string, id uint64) {
		uri := fmt.Sprintf("/dkv/%s/checkpoints#%d.%d", who, id, i)
		// model first (the publication goroutine may run inside the call)
		accepted := pending != nil && pending.id == id
		known := accepted && func() bool { _, ok := pending.ops[who]; return ok }()
		first := known && !pending.ops[who]
		if first {
			pending.ops[who] = true
			pending.opPayload[who] = uri
		}
		wasPending := pending
		if first {
			markComplete()
		}
		err := store.AddOperatorSnapshot(&snapshotpb.OperatorCheckpoint{CheckpointId: id, OperatorId: who, DkvFileUri: uri, KeyGroupRange: &snapshotpb.KeyGroupRange{Start: 0, End: 1}})
		if !accepted && err == nil {
			c.Violate(prop+"/ack-accepted", "op %d operator %s ack for id %d was accepted although pending is %v", i, who, id, pendingID(wasPending))
		}
		if accepted && known && first && err != nil {
			c.Violate(prop+"/ack-rejected", "op %d first ack of operator %s for pending id %d was rejected: %v", i, who, id, err)
		}
		switch {
		case !accepted:
			c.Probe("ack-wrong-id")
		case !known:
			c.Probe("ack-unknown-sender")
		case !first:
			c.Probe("ack-duplicate")
		}
	}
	srAck := func(i int, who string, id uint64, nStates int) {
		states := make([][]byte, nStates)
		strs := make([]string, nStates)
		for k := range states {
			strs[k] = fmt.Sprintf("%s/split%d@%d", who, k, id)
			states[k] = []byte(strs[k])
		}
		accepted := pending != nil && pending.id == id
		known := accepted && func() bool { _, ok := pending.srs[who]; return ok }()
		first := known && !pending.srs[who]
		if first {
			pending.srs[who] = true
			pending.srStates[who] = strs
		}
		wasPending := pending
		if first {
			markComplete()
		}
		err := store.AddSourceSnapshot(&jobpb.SourceRunnerCheckpointCompleteRequest{CheckpointId: id, SourceRunnerId: who, SplitStates: states})
		if !accepted && err == nil {
			c.Violate(prop+"/ack-accepted", "op %d source runner %s ack for id %d was accepted although pending is %v", i, who, id, pendingID(wasPending))
		}
		if accepted && !known && err == nil {
			c.Violate(prop+"/ack-accepted", "op %d ack of unknown source runner %s was accepted", i, who)
		}
		if first && err != nil {
			c.Violate(prop+"/ack-rejected", "op %d first ack of source runner %s for pending id %d was rejected: %v", i, who, id, err)
		}
		switch {
		case !accepted:
			c.Probe("ack-wrong-id")
		case !known:
			c.Probe("ack-unknown-sender")
		case !first:
			c.Probe("ack-duplicate")
		}
	}
	offID := func(off int64) uint64 {
		base := lastReturned
		if pending != nil {
			base = pending.id
		}
		v := int64(base) + off
		if v < 0 {
			v = 0
		}
		return uint64(v)
	}

	for i, op := range c.Case.Ops {
		if c.Violated() {
			return
		}
		simrt.Yield("op:" + op.K)
		simrt.SetGroup(node)
		switch op.K {
		case "create":
			id, err := store.CreateCheckpoint(opIDs, srIDs)
			switch {
			case pending != nil && !errors.Is(err, snapshots.ErrCheckpointInProgress):
				c.Violate(prop+"/second-pending", "op %d CreateCheckpoint returned (%d, %v) while checkpoint %d is still pending", i, id, err, pending.id)
			case pending == nil && err != nil:
				c.Violate(prop+"/create-failed", "op %d CreateCheckpoint failed with nothing pending: %v", i, err)
			case pending == nil:
				checkID(i, id, "CreateCheckpoint")
				newPending(id, false)
				c.Probe("created")
			default:
				c.Probe("create-while-pending")
			}
		case "savepoint":
			id, created, err := store.CreateSavepoint(opIDs, srIDs)
			switch {
			case pending != nil && pending.savepoint:
				if err == nil {
					c.Violate(prop+"/second-pending", "op %d CreateSavepoint succeeded (%d) while savepoint %d is pending", i, id, pending.id)
				}
			case pending != nil:
				if err != nil || created || id != pending.id {
					c.Violate(prop+"/savepoint-not-folded", "op %d CreateSavepoint returned (%d, created=%v, %v) while checkpoint %d is pending", i, id, created, err, pending.id)
				}
				pending.savepoint = true
				c.Probe("savepoint-folded")
			default:
				if err != nil || !created {
					c.Violate(prop+"/create-failed", "op %d CreateSavepoint with nothing pending: (%d, %v, %v)", i, id, created, err)
					break
				}
				checkID(i, id, "CreateSavepoint")
				newPending(id, true)
			}
		case "opack":
			who := opIDs[int(op.Arg(0))%nOps]
			if op.Arg(2) == 1 {
				who = "stranger-op"
			}
			opAck(i, who, offID(op.Arg(1)))
		case "srack":
			who := srIDs[int(op.Arg(0))%nSRs]
			if op.Arg(2) == 1 {
				who = "stranger-sr"
			}
			srAck(i, who, offID(op.Arg(1)), int(op.Arg(3)))
		case "finish":
			if pending == nil {
				break
			}
			id := pending.id
			for _, o := range opIDs {
				if pending != nil && !pending.ops[o] {
					opAck(i, o, id)
				}
			}
			for _, s := range srIDs {
				if pending != nil && !pending.srs[s] {
					srAck(i, s, id, 1)
				}
			}
		case "settle":
			simrt.Sleep("settle", 1e6)
		case "crash":
			c.S.KillGroup(node)
			r.disk.Kill(node)
			c.Fault("crash")
			if !boot() {
				return
			}
		}
		if cur := store.CurrentCheckpoint(); cur != nil {
			if cur.Id < lastCurrent {
				c.Violate(prop+"/current-went-backwards", "op %d CurrentCheckpoint is %d after it was %d", i, cur.Id, lastCurrent)
			}
			lastCurrent = cur.Id
		}
		c.OpDone()
	}
	// quiesce: let every publication finish, then the newest completed checkpoint must be in storage
	simrt.Sleep("settle", 1e9)
	if c.Violated() {
		return
	}
	r.mu.Lock()
	defer r.mu.Unlock()
	if r.hasNewest && !r.onDisk[r.newest] {
		c.Violate(prop+"/newest-not-in-storage", "after quiescence the snapshot of the newest completed checkpoint %d is not in storage (files: %v)", r.newest, snapshotFiles(r.disk))
	}
	c.SetState(fmt.Sprintf("pub%d", len(r.published)))
}

func loadCheckpoint(s *snapshots.Store) (err error) {
	defer func() {
		if p := recover(); p != nil {
			err = fmt.Errorf("panic: %v", p)
		}
	}()
	return s.LoadCheckpoint()
}

func pendingID(p *pendingModel) string {
	if p == nil {
		return "none"
	}
	return fmt.Sprint(p.id)
}

func keysOf(m map[string]bool) []string {
	var ks []string
	for k := range m {
		ks = append(ks, k)
	}
	sort.Strings(ks)
	return ks
}

func snapshotFiles(d *sim.Disk) []string {
	var out []string
	for _, p := range d.Paths() {
		if strings.HasSuffix(p, ".snapshot") {
			b, _ := d.ReadRaw(p)
			var jc snapshotpb.JobCheckpoint
			gproto.Unmarshal(b, &jc)
			out = append(out, fmt.Sprintf("%s(id %d)", p[strings.LastIndex(p, "/")+1:], jc.Id))
		}
	}
	return out
}
