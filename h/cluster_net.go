package h

import (
	"context"
	"encoding/json"
	"errors"
	"fmt"
	"os"
	"sort"
	"sync"
	"time"

	"connectrpc.com/connect"
	"reduction.dev/reduction-protocol/jobconfigpb"
	"reduction.dev/reduction/connectors"
	"reduction.dev/reduction/jobs"
	"reduction.dev/reduction/proto"
	"reduction.dev/reduction/proto/jobpb"
	"reduction.dev/reduction/proto/snapshotpb"
	"reduction.dev/reduction/proto/workerpb"
	simrt "reduction.dev/reduction/verifsimrt"
	"reduction.dev/reduction/workers/operator"
	"reduction.dev/reduction/workers/sourcerunner"
	"verif/sim"
)

// ---------------------------------------------------------------------------
// SimNet: the job <-> worker <-> worker transport. A call runs the callee's real
// Handle* method on a goroutine of the callee's group (= process), so a crash
// of either side is a crash of that side only. Modelled from rpc/http_client.go
// and connect: CodeUnavailable is retried with back-off, a dead or partitioned
// peer gives a non-retryable transport error.

var errTransport = errors.New("simnet: connection refused")

type netNode struct {
	group string
	dead  bool
	death chan struct{}
}

type netEvent struct {
	Seq  int
	From string
	To   string
	Kind string
	Info string
}

type simNet struct {
	c     *sim.Ctx
	mu    sync.Mutex
	nodes map[string]*netNode // logical name ("job", worker host) -> current incarnation
	part  map[[2]string]bool
	log   []netEvent
	seq   int
	// fault rates (1 in N), 0 = never
	reqLoss, respLoss int
}

func newSimNet(c *sim.Ctx) *simNet {
	return &simNet{c: c, nodes: map[string]*netNode{}, part: map[[2]string]bool{}}
}

func (n *simNet) setNode(name, group string) {
	n.mu.Lock()
	n.nodes[name] = &netNode{group: group, death: make(chan struct{})}
	n.mu.Unlock()
}

func (n *simNet) kill(name string) {
	n.mu.Lock()
	nd := n.nodes[name]
	if nd != nil && !nd.dead {
		nd.dead = true
		close(nd.death)
	}
	n.mu.Unlock()
}

func (n *simNet) alive(name string) bool {
	n.mu.Lock()
	defer n.mu.Unlock()
	nd := n.nodes[name]
	return nd != nil && !nd.dead
}

func (n *simNet) record(from, to, kind, info string) {
	n.mu.Lock()
	n.seq++
	if len(n.log) < 200000 {
		n.log = append(n.log, netEvent{n.seq, from, to, kind, info})
	}
	n.mu.Unlock()
	simrt.Log("net " + from + ">" + to + " " + kind + " " + info)
}

// rpc performs one call from -> to.
func (n *simNet) rpc(from, to, label string, fn func() error) error {
	simrt.Yield("rpc.req:" + label)
	n.mu.Lock()
	nd := n.nodes[to]
	cut := n.part[[2]string{from, to}] || n.part[[2]string{to, from}]
	n.mu.Unlock()
	if nd == nil || nd.dead || cut {
		// a refused / timed-out connection is not free: without this a caller that
		// retries at once would spin without simulated time ever advancing
		simrt.Sleep("rpc-refused", 50*time.Millisecond)
		return fmt.Errorf("%s -> %s %s: %w", from, to, label, errTransport)
	}
	if n.reqLoss > 0 && simrt.Choose(n.reqLoss, "net:req-loss") == n.reqLoss-1 {
		n.c.Fault("rpc-request-lost")
		return fmt.Errorf("%s -> %s %s: request lost: %w", from, to, label, errTransport)
	}
	done := make(chan error, 1)
	grp, ord := nd.group, simrt.NextOrd()
	go func() {
		defer func() {
			if p := recover(); p != nil {
				n.c.Violate(n.c.Prop+"/panic", "handling %s at %s panicked: %v", label, to, p)
				done <- fmt.Errorf("panic: %v", p)
			}
		}()
		simrt.Start("rpc.handle:"+label, grp, ord)
		done <- fn()
	}()
	var err error
	i, rv, _ := simrt.Select("rpc.wait:"+label, false, simrt.RecvCase(done), simrt.RecvCase(nd.death))
	if i == 0 {
		if e, ok := rv.Interface().(error); ok {
			err = e
		}
	} else {
		return fmt.Errorf("%s -> %s %s: peer died: %w", from, to, label, errTransport)
	}
	if n.respLoss > 0 && simrt.Choose(n.respLoss, "net:resp-loss") == n.respLoss-1 {
		n.c.Fault("rpc-response-lost")
		return fmt.Errorf("%s -> %s %s: response lost: %w", from, to, label, errTransport)
	}
	return err
}

// ---------------------------------------------------------------------------
// cluster world

type simWorker struct {
	host   string
	group  string
	sr     *sourcerunner.SourceRunner
	op     *operator.Operator
	cancel context.CancelFunc
	opID   string
	srID   string
}

type cluWorld struct {
	c    *sim.Ctx
	prop string
	disk *sim.Disk
	net  *simNet
	mu   sync.Mutex

	job     *jobs.Job
	jobInc  int
	workers map[string]*simWorker
	nWorker int
	pendingRestarts int // restarts of killed workers that run beside the fault plan (overlapping failures)

	src *simSource
	h   *cluModel

	kgs         int
	workerCount int

	// monitors
	deploys      []deployRec
	assigns      []assignRec
	srAcks       []srAckRec
	opAcks       []*snapshotpb.OperatorCheckpoint
	published    map[uint64]*snapshotpb.JobCheckpoint
	allPublished map[uint64]*snapshotpb.JobCheckpoint // including those of a job that was replaced by a savepoint restore
	newestPub    uint64
	streams      map[string][]streamItem    // "srID>opID" -> delivered items in order
	regs         map[string]map[string]bool // job incarnation -> node id -> registered
	startCkpt    map[uint64]int
	startedFor   map[uint64]map[string]bool // checkpoint id -> runners it was started on

	savepoints            []uint64
	restoredFromSavepoint bool
	savepointID           uint64
	abandonedUpTo         uint64 // checkpoints up to this id belong to assemblies that no longer exist
}

type deployRec struct {
	jobInc int
	kind   string // op | sr
	target string
	ops    []string
	srs    []string
	ckptID uint64
	nCkpt  int
	kgs    int
	want   int // WorkerCount of the job at that time
	// delivered: the request reached a live worker process. Only a second *delivered* deployment
	// of the same worker is "a surviving worker redeployed in place"; a deployment sent to a dead,
	// not yet purged node reaches nobody.
	delivered bool
}

type assignRec struct {
	jobInc int
	srID   string
	round  int
	splits map[string]int64 // split -> cursor
}

type srAckRec struct {
	srID   string
	ckpt   uint64
	cursor map[string]int64
}

type streamItem struct {
	kind string // rec | wm | bar
	rec  string
	wm   time.Time
	ckpt uint64
	ts   time.Time
	at   time.Duration // simulated time of delivery
}

// --- job client (held by workers) ---

type jobClient struct {
	w    *cluWorld
	from string
}

func (j jobClient) call(label string, fn func(job *jobs.Job) error) error {
	return j.w.net.rpc(j.from, "job", label, func() error {
		j.w.mu.Lock()
		job := j.w.job
		j.w.mu.Unlock()
		if job == nil {
			return errTransport
		}
		return fn(job)
	})
}

func (j jobClient) RegisterSourceRunner(ctx context.Context, n *jobpb.NodeIdentity) error {
	return j.call("RegisterSourceRunner", func(job *jobs.Job) error {
		j.w.noteReg(n.Id, true)
		job.HandleRegisterSourceRunner(n)
		return nil
	})
}
func (j jobClient) DeregisterSourceRunner(ctx context.Context, n *jobpb.NodeIdentity) error {
	return j.call("DeregisterSourceRunner", func(job *jobs.Job) error {
		j.w.noteReg(n.Id, false)
		job.HandleDeregisterSourceRunner(n)
		return nil
	})
}
func (j jobClient) RegisterOperator(ctx context.Context, n *jobpb.NodeIdentity) error {
	return j.call("RegisterOperator", func(job *jobs.Job) error {
		j.w.noteReg(n.Id, true)
		job.HandleRegisterOperator(n)
		return nil
	})
}
func (j jobClient) DeregisterOperator(ctx context.Context, n *jobpb.NodeIdentity) error {
	return j.call("DeregisterOperator", func(job *jobs.Job) error {
		j.w.noteReg(n.Id, false)
		job.HandleDeregisterOperator(n)
		return nil
	})
}
func (j jobClient) OperatorCheckpointComplete(ctx context.Context, req *snapshotpb.OperatorCheckpoint) error {
	return j.call("OperatorCheckpointComplete", func(job *jobs.Job) error {
		j.w.mu.Lock()
		j.w.opAcks = append(j.w.opAcks, req)
		j.w.mu.Unlock()
		j.w.net.record(j.from, "job", "op-ack", fmt.Sprintf("ckpt=%d op=%s", req.CheckpointId, req.OperatorId))
		return job.HandleOperatorCheckpointComplete(ctx, req)
	})
}
func (j jobClient) OnSourceRunnerCheckpointComplete(ctx context.Context, req *jobpb.SourceRunnerCheckpointCompleteRequest) error {
	if k := j.w.src.kin; k != nil {
		k.onAck(req.SourceRunnerId, req.CheckpointId)
	}
	return j.call("SourceRunnerCheckpointComplete", func(job *jobs.Job) error {
		rec := srAckRec{srID: req.SourceRunnerId, ckpt: req.CheckpointId, cursor: map[string]int64{}}
		for _, b := range req.SplitStates {
			if id, cur, ok := j.w.src.decodeState(b); ok {
				rec.cursor[id] = cur
			}
		}
		j.w.mu.Lock()
		j.w.srAcks = append(j.w.srAcks, rec)
		j.w.mu.Unlock()
		j.w.net.record(j.from, "job", "sr-ack", fmt.Sprintf("ckpt=%d sr=%s %v", req.CheckpointId, req.SourceRunnerId, rec.cursor))
		return job.HandleSourceRunnerCheckpointComplete(ctx, req)
	})
}
func (j jobClient) NotifySplitsFinished(ctx context.Context, id string, s []string) error {
	return j.call("NotifySplitsFinished", func(job *jobs.Job) error { return job.HandleNotifySplitsFinished(id, s) })
}

func (w *cluWorld) noteReg(id string, on bool) {
	w.mu.Lock()
	key := fmt.Sprintf("job%d", w.jobInc)
	if w.regs[key] == nil {
		w.regs[key] = map[string]bool{}
	}
	w.regs[key][id] = on
	w.mu.Unlock()
}

// --- operator client (held by the job, by source runners and by neighbours) ---

type cluOpClient struct {
	proto.UnimplementedOperator
	w      *cluWorld
	from   string // logical sender node ("job" or worker host)
	sender string // sender id as the operator sees it
	node   *jobpb.NodeIdentity
}

func (o *cluOpClient) ID() string   { return o.node.Id }
func (o *cluOpClient) Host() string { return o.node.Host }
func (o *cluOpClient) worker() *simWorker {
	o.w.mu.Lock()
	defer o.w.mu.Unlock()
	return o.w.workers[o.node.Host]
}

func (o *cluOpClient) HandleEventBatch(ctx context.Context, batch []*workerpb.Event) error {
	if len(batch) == 0 {
		return nil
	}
	delay := 100 * time.Millisecond
	for attempt := 1; ; attempt++ {
		err := o.w.net.rpc(o.from, o.node.Host, "HandleEventBatch", func() error {
			wk := o.worker()
			if wk == nil {
				return errTransport
			}
			// what rpc/operator_connect_handler.go does
			for _, ev := range batch {
				o.w.noteDelivery(o.sender, o.node.Id, ev)
				if err := wk.op.HandleEvent(ctx, o.sender, ev); err != nil {
					o.w.noteDeliveryFailed(o.sender, o.node.Id)
					return err
				}
			}
			return nil
		})
		if err != nil && connect.CodeOf(err) == connect.CodeUnavailable {
			// rpc/http_client.go: 503 is retried for ever with a growing delay (the whole request)
			select {
			case <-ctx.Done():
				return ctx.Err()
			default:
			}
			simrt.Sleep("rpc-retry", min(delay*time.Duration(attempt), 10*time.Second))
			o.w.c.Probe("event-batch-retried")
			continue
		}
		return err
	}
}

func (o *cluOpClient) Deploy(ctx context.Context, req *workerpb.DeployOperatorRequest) error {
	rec := deployRec{kind: "op", target: o.node.Id, kgs: int(req.KeyGroupCount), nCkpt: len(req.Checkpoints), srs: req.SourceRunnerIds}
	for _, op := range req.Operators {
		rec.ops = append(rec.ops, op.Id)
	}
	if len(req.Checkpoints) > 0 {
		rec.ckptID = req.Checkpoints[0].CheckpointId
	}
	o.w.mu.Lock()
	rec.jobInc = o.w.jobInc
	rec.want = o.w.workerCount
	idx := len(o.w.deploys)
	o.w.deploys = append(o.w.deploys, rec)
	o.w.mu.Unlock()
	o.w.net.record(o.from, o.node.Host, "deploy-op", fmt.Sprintf("ops=%v srs=%v ckpts=%d id=%d", rec.ops, rec.srs, rec.nCkpt, rec.ckptID))
	return o.w.net.rpc(o.from, o.node.Host, "DeployOperator", func() error {
		wk := o.worker()
		if wk == nil {
			return errTransport
		}
		o.w.mu.Lock()
		for _, d := range o.w.deploys[:idx] {
			if d.kind == "op" && d.target == rec.target && d.delivered {
				o.w.c.AddTag("a surviving worker was redeployed in place")
			}
		}
		o.w.deploys[idx].delivered = true
		o.w.mu.Unlock()
		o.w.h.onDeploy(o.node.Id, req)
		o.w.disk.ReleaseStalls() // a slow snapshot publication lands while the next deployment is under way
		return wk.op.HandleDeploy(ctx, req, recSink{})
	})
}

func (o *cluOpClient) UpdateRetainedCheckpoints(ctx context.Context, ids []uint64) error {
	o.w.net.record(o.from, o.node.Host, "retain", fmt.Sprint(ids))
	return o.w.net.rpc(o.from, o.node.Host, "UpdateRetainedCheckpoints", func() error {
		wk := o.worker()
		if wk == nil {
			return errTransport
		}
		return wk.op.HandleRemoveCheckpoints(ctx, &workerpb.UpdateRetainedCheckpointsRequest{CheckpointIds: ids})
	})
}

func (o *cluOpClient) NeedsTable(ctx context.Context, uri string) (bool, error) {
	// issued from runtime cleanup goroutines (outside the bubble): answered
	// directly, without scheduling points
	wk := o.worker()
	if wk == nil || !o.w.net.alive(o.node.Host) {
		if os.Getenv("VERIF_DEBUG") != "" {
			fmt.Fprintf(os.Stderr, "NeedsTable %s -> %s %s: unreachable\n", o.from, o.node.Host, uri)
		}
		return false, errTransport
	}
	ans := wk.op.HandleNeedsTable(uri)
	if os.Getenv("VERIF_DEBUG") != "" {
		fmt.Fprintf(os.Stderr, "NeedsTable %s -> %s %s: %v\n", o.from, o.node.Host, uri, ans)
	}
	return ans, nil
}

// --- source runner client (held by the job) ---

type cluSRClient struct {
	proto.UnimplementedSourceRunner
	w    *cluWorld
	node *jobpb.NodeIdentity
}

func (s *cluSRClient) ID() string   { return s.node.Id }
func (s *cluSRClient) Host() string { return s.node.Host }
func (s *cluSRClient) worker() *simWorker {
	s.w.mu.Lock()
	defer s.w.mu.Unlock()
	return s.w.workers[s.node.Host]
}
func (s *cluSRClient) Deploy(ctx context.Context, req *workerpb.DeploySourceRunnerRequest) error {
	rec := deployRec{kind: "sr", target: s.node.Id, kgs: int(req.KeyGroupCount)}
	for _, op := range req.Operators {
		rec.ops = append(rec.ops, op.Id)
	}
	s.w.mu.Lock()
	rec.jobInc = s.w.jobInc
	rec.want = s.w.workerCount
	for id := range s.w.startCkpt { // a new assembly: whatever was in flight is abandoned
		s.w.abandonedUpTo = max(s.w.abandonedUpTo, id)
	}
	idx := len(s.w.deploys)
	s.w.deploys = append(s.w.deploys, rec)
	s.w.mu.Unlock()
	s.w.net.record("job", s.node.Host, "deploy-sr", fmt.Sprintf("ops=%v", rec.ops))
	return s.w.net.rpc("job", s.node.Host, "DeploySourceRunner", func() error {
		wk := s.worker()
		if wk == nil {
			return errTransport
		}
		s.w.mu.Lock()
		for _, d := range s.w.deploys[:idx] {
			if d.kind == "sr" && d.target == rec.target && d.delivered {
				s.w.c.AddTag("a surviving worker was redeployed in place")
			}
		}
		s.w.deploys[idx].delivered = true
		s.w.mu.Unlock()
		return wk.sr.HandleDeploy(ctx, req)
	})
}
func (s *cluSRClient) AssignSplits(ctx context.Context, splits []*workerpb.SourceSplit) error {
	rec := assignRec{srID: s.node.Id, splits: map[string]int64{}}
	for _, sp := range splits {
		rec.splits[sp.SplitId] = s.w.src.assignCursor(sp.Cursor)
		fmt.Sscanf(sp.SourceId, "sim/%d", &rec.round)
	}
	s.w.mu.Lock()
	rec.jobInc = s.w.jobInc
	s.w.assigns = append(s.w.assigns, rec)
	s.w.mu.Unlock()
	s.w.net.record("job", s.node.Host, "assign", fmt.Sprint(rec.splits))
	return s.w.net.rpc("job", s.node.Host, "AssignSplits", func() error {
		wk := s.worker()
		if wk == nil {
			return errTransport
		}
		return wk.sr.HandleAssignSplits(splits)
	})
}
func (s *cluSRClient) StartCheckpoint(ctx context.Context, id uint64) error {
	s.w.mu.Lock()
	if other := s.w.inFlight(); other != 0 && other != id {
		s.w.c.Violate(s.w.prop+"/two-checkpoints-in-progress", "StartCheckpoint(%d) was sent while checkpoint %d of the same assembly is still in progress", id, other)
	}
	s.w.startCkpt[id]++
	if s.w.startedFor[id] == nil {
		s.w.startedFor[id] = map[string]bool{}
	}
	s.w.startedFor[id][s.node.Id] = true
	s.w.mu.Unlock()
	s.w.net.record("job", s.node.Host, "start-ckpt", fmt.Sprint(id))
	err := s.w.net.rpc("job", s.node.Host, "StartCheckpoint", func() error {
		wk := s.worker()
		if wk == nil {
			return errTransport
		}
		wk.sr.HandleStartCheckpoint(ctx, id)
		return nil
	})
	if err != nil && s.w.net.alive(s.node.Host) {
		// triage tag for the known finding "a checkpoint that could not be started at one
		// member stays pending for ever" (DESIGN.md section 15)
		s.w.c.AddTag("a StartCheckpoint call to a live source runner failed")
		s.w.c.Probe("start-checkpoint-failed-at-live-runner")
	}
	return err
}

// --- delivery log (what each source runner delivered to each operator, in order) ---

func (w *cluWorld) noteDelivery(srID, opID string, ev *workerpb.Event) {
	it := streamItem{}
	switch e := ev.Event.(type) {
	case *workerpb.Event_KeyedEvent:
		var rec simRecord
		json.Unmarshal(e.KeyedEvent.Value, &rec)
		it = streamItem{kind: "rec", rec: rec.ID(), ts: e.KeyedEvent.Timestamp.AsTime()}
	case *workerpb.Event_Watermark:
		it = streamItem{kind: "wm", wm: e.Watermark.Timestamp.AsTime()}
	case *workerpb.Event_CheckpointBarrier:
		it = streamItem{kind: "bar", ckpt: e.CheckpointBarrier.CheckpointId}
	default:
		return
	}
	it.at = w.c.S.SimTime()
	w.mu.Lock()
	k := srID + ">" + opID
	w.streams[k] = append(w.streams[k], it)
	w.mu.Unlock()
}

// an event whose HandleEvent failed (e.g. operator not ready) was not delivered
func (w *cluWorld) noteDeliveryFailed(srID, opID string) {
	w.mu.Lock()
	k := srID + ">" + opID
	if n := len(w.streams[k]); n > 0 {
		w.streams[k] = w.streams[k][:n-1]
	}
	w.mu.Unlock()
}

func sortedStrings(m map[string]bool) []string {
	var s []string
	for k, v := range m {
		if v {
			s = append(s, k)
		}
	}
	sort.Strings(s)
	return s
}

// ---------------------------------------------------------------------------
// SimSource: S splits of R pre-generated records, checkpointable cursors

type simRecord struct {
	Split int    `json:"s"`
	Idx   int    `json:"i"`
	Key   string `json:"k"`
	TS    int64  `json:"t"` // seconds
}

func (r simRecord) ID() string { return fmt.Sprintf("%d:%d", r.Split, r.Idx) }

type simSplitState struct {
	SplitID string `json:"id"`
	Cursor  int64  `json:"cursor"`
}

type simSource struct {
	w       *cluWorld
	kin     *kinWorld // non-nil: the source is the Kinesis connector over the in-process fake
	splits  [][]simRecord
	batch   int
	paceMS  int64
	pollMS  int64
	mu      sync.Mutex
	readers int
	rounds  int
	// per splitter incarnation (= job start): what it assigned, and from which checkpoint
	roundAssign map[int]map[string]map[string]int64
	roundCkpt   map[int]uint64
	roundWant   map[int]map[string]int64
}

func (s *simSource) Validate() error { return nil }
func (s *simSource) ProtoMessage() *jobconfigpb.Source {
	return &jobconfigpb.Source{Config: &jobconfigpb.Source_Embedded{Embedded: &jobconfigpb.EmbeddedSource{SplitCount: int32(len(s.splits))}}}
}

// split naming and state encoding differ between the two source kinds
func (s *simSource) splitID(i int) string {
	if s.kin != nil {
		return shardName(i)
	}
	return fmt.Sprint(i)
}
func (s *simSource) splitIndex(id string) (int, bool) {
	if s.kin != nil {
		return shardIndex(id)
	}
	var idx int
	n, _ := fmt.Sscanf(id, "%d", &idx)
	return idx, n == 1 && idx >= 0 && idx < len(s.splits)
}
func (s *simSource) decodeState(b []byte) (string, int64, bool) {
	if s.kin != nil {
		return decodeKinState(b)
	}
	var st simSplitState
	if json.Unmarshal(b, &st) != nil {
		return "", 0, false
	}
	return st.SplitID, st.Cursor, true
}
func (s *simSource) assignCursor(b []byte) int64 {
	if s.kin != nil {
		return kinCursor(b)
	}
	return decodeCursor(b)
}

func (s *simSource) NewSourceSplitter(srIDs []string, hooks connectors.SourceSplitterHooks, errChan chan<- error) connectors.SourceSplitter {
	if s.kin != nil {
		return s.kin.newSplitter(srIDs, hooks, errChan)
	}
	s.mu.Lock()
	s.rounds++
	round := s.rounds
	s.mu.Unlock()
	return &simSplitter{src: s, srIDs: srIDs, hooks: hooks, round: round}
}
func (s *simSource) NewSourceReader(hooks connectors.SourceReaderHooks) connectors.SourceReader {
	s.mu.Lock()
	s.readers++
	n := s.readers
	s.mu.Unlock()
	return &simReader{src: s, n: n}
}

var _ connectors.SourceConfig = (*simSource)(nil)

type simSplitter struct {
	connectors.UnimplementedSourceSplitter
	src   *simSource
	srIDs []string
	hooks connectors.SourceSplitterHooks
	round int
}

func (s *simSplitter) IsSourceSplitter()                              {}
func (s *simSplitter) Close() error                                   { return nil }
func (s *simSplitter) NotifySplitsFinished(srID string, ids []string) {}
func (s *simSplitter) Checkpoint() []byte                             { return []byte("sim-splitter") }
func (s *simSplitter) Start(ckpt *snapshotpb.SourceCheckpoint) error {
	cursors := map[string]int64{}
	if ckpt != nil {
		for _, b := range ckpt.SplitStates {
			var st simSplitState
			if err := json.Unmarshal(b, &st); err != nil {
				return err
			}
			cursors[st.SplitID] = st.Cursor
		}
	}
	assignments := map[string][]*workerpb.SourceSplit{}
	rec := map[string]map[string]int64{}
	defer func() {
		s.src.mu.Lock()
		if s.src.roundAssign == nil {
			s.src.roundAssign, s.src.roundCkpt = map[int]map[string]map[string]int64{}, map[int]uint64{}
		}
		s.src.roundAssign[s.round] = rec
		if ckpt != nil {
			s.src.roundCkpt[s.round] = ckpt.CheckpointId
			// what the published snapshot of that id says *now* (ids can be reused
			// later, after a restore from an older savepoint)
			s.src.w.mu.Lock()
			if jc := s.src.w.allPublished[ckpt.CheckpointId]; jc != nil && len(jc.SourceCheckpoints) == 1 {
				want := map[string]int64{}
				for _, b := range jc.SourceCheckpoints[0].SplitStates {
					var st simSplitState
					if json.Unmarshal(b, &st) == nil {
						want[st.SplitID] = st.Cursor
					}
				}
				if s.src.roundWant == nil {
					s.src.roundWant = map[int]map[string]int64{}
				}
				s.src.roundWant[s.round] = want
			}
			s.src.w.mu.Unlock()
		}
		s.src.mu.Unlock()
	}()
	for _, sr := range s.srIDs {
		rec[sr] = map[string]int64{}
	}
	for i := range s.src.splits {
		id := fmt.Sprint(i)
		sp := &workerpb.SourceSplit{SplitId: id, SourceId: fmt.Sprintf("sim/%d", s.round)}
		rec[s.srIDs[i%len(s.srIDs)]][id] = cursors[id]
		if c, ok := cursors[id]; ok {
			sp.Cursor = encodeCursor(c)
		}
		sr := s.srIDs[i%len(s.srIDs)]
		assignments[sr] = append(assignments[sr], sp)
	}
	for _, sr := range s.srIDs { // a runner without splits still gets its (empty) assignment
		if _, ok := assignments[sr]; !ok {
			assignments[sr] = nil
		}
	}
	s.hooks.AssignSplits(assignments)
	return nil
}

func encodeCursor(c int64) []byte { return []byte(fmt.Sprintf("%d", c)) }
func decodeCursor(b []byte) int64 {
	var c int64
	fmt.Sscanf(string(b), "%d", &c)
	return c
}

type simReader struct {
	src     *simSource
	n       int
	mu      sync.Mutex
	splits  []*simSplitState
	calls   int
	nextDue time.Duration
}

func (r *simReader) AssignSplits(splits []*workerpb.SourceSplit) error {
	r.mu.Lock()
	defer r.mu.Unlock()
	for _, sp := range splits {
		r.splits = append(r.splits, &simSplitState{SplitID: sp.SplitId, Cursor: decodeCursor(sp.Cursor)})
	}
	return nil
}

func (r *simReader) ReadEvents() ([][]byte, error) {
	simrt.Yield("source.ReadEvents")
	// the source trickles (input spans several checkpoint intervals), but a read never
	// blocks the runner's loop for long: like the real pollers it returns nothing after a
	// short wait until the next records are due
	if now := r.src.w.c.S.SimTime(); now < r.nextDue {
		simrt.Sleep("source-poll", min(r.nextDue-now, time.Duration(r.src.pollMS)*time.Millisecond))
		if r.src.w.c.S.SimTime() < r.nextDue {
			return nil, nil
		}
	}
	r.nextDue = r.src.w.c.S.SimTime() + time.Duration(r.src.paceMS)*time.Millisecond
	r.mu.Lock()
	r.calls++
	var out [][]byte
	// read batch sizes vary from call to call
	n := 1 + (r.calls*7+r.n)%r.src.batch
	for _, sp := range r.splits {
		var idx int
		fmt.Sscanf(sp.SplitID, "%d", &idx)
		recs := r.src.splits[idx]
		for k := 0; k < n && int(sp.Cursor) < len(recs); k++ {
			b, _ := json.Marshal(recs[sp.Cursor])
			out = append(out, b)
			sp.Cursor++
		}
	}
	r.mu.Unlock()
	return out, nil
}

func (r *simReader) Checkpoint() [][]byte {
	r.mu.Lock()
	defer r.mu.Unlock()
	out := make([][]byte, len(r.splits))
	for i, sp := range r.splits {
		out[i], _ = json.Marshal(sp)
	}
	return out
}

var _ connectors.SourceReader = (*simReader)(nil)
