package h

import (
	"context"
	"encoding/binary"
	"encoding/json"
	"errors"
	"fmt"
	"math/rand/v2"
	"sort"
	"strings"
	"sync"
	"time"

	"connectrpc.com/connect"
	"google.golang.org/protobuf/types/known/timestamppb"
	"reduction.dev/reduction-protocol/handlerpb"
	"reduction.dev/reduction/batching"
	"reduction.dev/reduction/clocks"
	"reduction.dev/reduction/config"
	"reduction.dev/reduction/dkv"
	"reduction.dev/reduction/dkv/recovery"
	"reduction.dev/reduction/dkv/sst"
	"reduction.dev/reduction/dkv/storage"
	"reduction.dev/reduction/jobs"
	"reduction.dev/reduction/partitioning"
	"reduction.dev/reduction/proto"
	"reduction.dev/reduction/proto/jobpb"
	"reduction.dev/reduction/proto/snapshotpb"
	"reduction.dev/reduction/proto/workerpb"
	simrt "reduction.dev/reduction/verifsimrt"
	"reduction.dev/reduction/workers/operator"
	"verif/sim"
	"verif/simcore"
)

// H-OP: 1..4 real operator.Operator instances end to end (HandleDeploy,
// HandleEvent, barrier alignment, event loop, batching, keyed state store,
// timers, DKV, checkpoint, retention, NeedsTable), with sender tasks standing in
// for the source runners' per-operator sender goroutines (each strictly
// sequential), a job stub that records acknowledgements, the real
// jobs.Assembly.Deploy for rescaling, and the self-verifying reference handler.
var HOp = &sim.Harness{
	Name:     "H-OP",
	Gen:      genOp,
	Body:     bodyOp,
	MaxSteps: 400000,
	Real:     []string{"workers/operator (Operator, checkpoint alignment, KeyedStateStore, TimerRegistry, TimerStore, OperatorPartition)", "batching.EventBatcher + clocks.SystemTimer", "dkv (all)", "partitioning", "jobs.Assembly.Deploy (rescale)", "util/ds, util/murmur"},
	Stub:     []string{"source runners -> one sender task per (runner, operator) stream", "proto.Job -> stub recording acknowledgements", "proto.Handler -> reference handler (oracle)", "connect/HTTP transport -> direct calls of the same Handle* methods with CodeUnavailable retry", "storage -> SimDisk through the FileSystem factory hook", "clocks.Clock -> FrozenClock (registration poller only)"},
}

type opItem struct {
	kind   string // ev | wm | bar
	sender int
	idx    int
	key    []byte
	script evScript
	wm     int64
	ckpt   uint64
}

func genOp(r *rand.Rand, prop, tier string) simcore.Case {
	cs := genDKV(r, "C07", tier)
	cs.Ops = nil
	pick := func(v ...int64) int64 { return v[r.IntN(len(v))] }
	cs.Cfg["mem"] = pick(96, 200, 400, 1000, 4096, 1<<20)
	cs.Cfg["wal"] = pick(200, 1000, 4096, 1<<20)
	senders := pick(1, 2, 2, 3, 4)
	opsN := pick(1, 1, 2, 3)
	switch prop {
	case "C03":
		senders, opsN = 1, 1
	case "C06", "C09":
		opsN = pick(1, 2, 2, 3, 4)
		cs.Cfg["ops2"] = pick(1, 2, 2, 3, 4)
		cs.Cfg["reuse"] = pick(0, 0, 1)
		cs.Cfg["ackorder"] = int64(r.IntN(24))
		if r.IntN(2) == 0 { // a second rescale, from the first checkpoint of the rescaled operators
			cs.Cfg["ops3"] = pick(1, 1, 2, 3)
			cs.Cfg["reuse2"] = pick(0, 0, 1)
			cs.Cfg["ackorder2"] = int64(r.IntN(24))
		}
		// pre-checkpoint state must reach SST files and the base level in several
		// operators: small memtables, eager (major) compaction
		if r.IntN(4) != 0 {
			cs.Cfg["mem"] = pick(96, 200, 400)
			cs.Cfg["l0"] = pick(1, 2)
			cs.Cfg["amp"] = pick(1, 25, 50)
			cs.Cfg["target"] = pick(128, 300, 1000)
		}
		cs.Cfg["gc"] = 1
	case "C02", "C11":
		opsN = pick(1, 1, 2)
	}
	cs.Cfg["senders"] = senders
	cs.Cfg["ops"] = opsN
	cs.Cfg["kgs"] = pick(1, 2, 3, 7, 8, 64, 127, 128, 129, 200, 255, 256, 257)
	if r.IntN(25) == 0 { // an operator creates one timer partition (and one DB scan) per key group: expensive, so rare
		cs.Cfg["kgs"] = pick(4096, 65535)
		cs.Cfg["pol.sticky"] = 2
	}
	cs.Cfg["bsize"] = pick(1, 1, 2, 3, 5)
	cs.Cfg["bdelay_us"] = pick(0, 100, 1000, 5000)
	cs.Cfg["tcache"] = pick(1, 40, 200, 1<<30)
	cs.Cfg["hlat"] = pick(0, 1, 1, 2)
	cs.Cfg["nkeys"] = int64(2 + r.IntN(5))
	cs.Cfg["dataseed"] = int64(r.Uint32())
	rounds := 1 + r.IntN(3)
	perRound := 3 + r.IntN(12)
	if prop == "C06" || prop == "C09" {
		rounds = 2
		perRound = 6 + r.IntN(30)
		if cs.Cfg["ops3"] > 0 {
			rounds = 3
			perRound = 6 + r.IntN(20)
		}
	}
	if tier == "thorough" {
		perRound = 3 + r.IntN(40)
	}
	// workload mix
	wEv, wWm := 6, 1+r.IntN(3)
	timers := prop == "C10" || prop == "C06" || prop == "C09" || prop == "C02" || r.IntN(2) == 0
	for round := 0; round < rounds; round++ {
		for i := 0; i < perRound; i++ {
			s := int64(r.IntN(int(senders)))
			if r.IntN(wEv+wWm) < wEv {
				nm := int64(r.IntN(4))
				t := int64(0)
				if timers && r.IntN(3) == 0 {
					t = 1 + int64(r.IntN(40))
				}
				cs.Ops = append(cs.Ops, simcore.Op{K: "ev", A: []int64{s, int64(r.IntN(int(cs.Cfg["nkeys"]))), nm, int64(r.Uint32()), t}})
			} else {
				cs.Ops = append(cs.Ops, simcore.Op{K: "wm", A: []int64{s, int64(r.IntN(6))}})
			}
		}
		cs.Ops = append(cs.Ops, simcore.Op{K: "barrier"}) // every sender emits this barrier at a position of its own
	}
	return cs
}

// adversarial subject keys: prefixes of one another, look-alikes of the
// length-prefixed encoding, 0x00 / 0xff bytes, the empty key
var opSubjectKeys = [][]byte{[]byte("a"), []byte("ab"), {}, {0x00}, {0x00, 0x00, 0x00, 0x01, 'a'}, {0xff}, []byte("a\x00"), []byte("k1"), []byte("k2")}
var opNamespaces = []string{"", "a", "ab", "n\x00", "é", strings.Repeat("x", 255)}
var opEntryKeys = [][]byte{{}, []byte("a"), []byte("ab"), {0x00}, {0xff, 0xff}, []byte("e")}

type opNode struct {
	id     string
	group  string
	op     *operator.Operator
	cancel context.CancelFunc
	alive  bool
	acks   []*snapshotpb.OperatorCheckpoint
}

type ackRec struct {
	op       string
	ack      *snapshotpb.OperatorCheckpoint
	state    map[string]nsState // expected content for the keys this operator owns (copy at ack time)
	timers   map[timerKey]bool
	owned    func(key string) bool
	restored bool // taken by an operator that was deployed from a checkpoint
}

type opWorld struct {
	c          *sim.Ctx
	prop       string
	disk       *sim.Disk
	m          *refModel
	mu         sync.Mutex
	ops        map[string]*opNode
	regs       map[string]bool
	acks       map[uint64][]*ackRec // checkpoint id -> acks in arrival order
	ks         *partitioning.KeySpace
	kgs        int
	assembly   []string                   // operator ids in assembly order
	preBarrier map[uint64]map[string]bool // checkpoint id -> ids of events each sender emitted before its barrier
	keyOf      map[string]string          // event id -> subject key
	senders    int
	pos        []int // per sender: where the next phase starts in its stream
	restored   bool  // the current assembly was deployed from a checkpoint
}

// --- job stub ---

type jobStub struct {
	proto.NoopJob
	w *opWorld
}

func (j jobStub) RegisterOperator(ctx context.Context, n *jobpb.NodeIdentity) error {
	simrt.Yield("rpc.RegisterOperator")
	j.w.mu.Lock()
	j.w.regs[n.Id] = true
	j.w.mu.Unlock()
	return nil
}

func (j jobStub) OperatorCheckpointComplete(ctx context.Context, req *snapshotpb.OperatorCheckpoint) error {
	simrt.Yield("rpc.OperatorCheckpointComplete")
	w := j.w
	c, prop := w.c, w.prop
	w.m.mu.Lock()
	defer w.m.mu.Unlock()
	w.mu.Lock()
	defer w.mu.Unlock()
	// C02: exactly the pre-barrier events of every sender have been applied
	pre := w.preBarrier[req.CheckpointId]
	if pre == nil {
		c.Violate(prop+"/ack-unknown-checkpoint", "operator %s acknowledged checkpoint %d which no sender started", req.OperatorId, req.CheckpointId)
		return nil
	}
	owned := func(key string) bool { return w.m.owner == nil || w.m.owner([]byte(key)) == req.OperatorId }
	for _, id := range sortedKeysAny(w.m.processed) {
		n := w.m.processed[id]
		if n > 0 && !pre[id] && owned(w.keyOf[id]) {
			c.Violate(prop+"/post-barrier-event-applied", "checkpoint %d of operator %s: event %s was applied although its sender emitted it after its barrier %d", req.CheckpointId, req.OperatorId, id, req.CheckpointId)
		}
	}
	for _, id := range sortedKeysAny(pre) {
		if w.m.processed[id] == 0 && owned(w.keyOf[id]) {
			c.Violate(prop+"/pre-barrier-event-missing", "checkpoint %d of operator %s was taken before event %s was applied although its sender delivered it ahead of barrier %d", req.CheckpointId, req.OperatorId, id, req.CheckpointId)
		}
	}
	rec := &ackRec{op: req.OperatorId, ack: req, state: map[string]nsState{}, timers: map[timerKey]bool{}, owned: owned, restored: w.restored}
	for k, st := range w.m.shadow {
		if owned(k) {
			rec.state[k] = cloneState(st)
		}
	}
	for tk := range w.m.pending {
		if owned(tk.key) {
			rec.timers[tk] = true
		}
	}
	w.acks[req.CheckpointId] = append(w.acks[req.CheckpointId], rec)
	c.Probe("operator-ack")
	return nil
}

// --- operator client (what the job and neighbouring operators hold) ---

type opClient struct {
	proto.UnimplementedOperator
	w      *opWorld
	sender string
	id     string
}

func (o *opClient) ID() string   { return o.id }
func (o *opClient) Host() string { return "host-" + o.id }
func (o *opClient) node() *opNode {
	o.w.mu.Lock()
	defer o.w.mu.Unlock()
	return o.w.ops[o.id]
}

// inProcessOf runs f as the RPC handler would run: inside the operator's process
// (group), so that whatever it creates - goroutines, process-local package state
// such as the DKV's task queues - belongs to the operator, not to the caller.
func (o *opClient) inProcessOf(n *opNode, f func() error) error {
	prev := simrt.Group()
	simrt.SetGroup(n.group)
	defer simrt.SetGroup(prev)
	return f()
}

func (o *opClient) Deploy(ctx context.Context, req *workerpb.DeployOperatorRequest) error {
	simrt.Yield("rpc.DeployOperator")
	n := o.node()
	base := uint64(0)
	for _, ck := range req.Checkpoints {
		base = max(base, ck.CheckpointId)
	}
	o.w.m.setBase(o.id, base)
	o.w.m.resetView(o.id)
	return o.inProcessOf(n, func() error { return n.op.HandleDeploy(ctx, req, recSink{}) })
}
func (o *opClient) UpdateRetainedCheckpoints(ctx context.Context, ids []uint64) error {
	simrt.Yield("rpc.UpdateRetainedCheckpoints")
	n := o.node()
	return o.inProcessOf(n, func() error {
		return n.op.HandleRemoveCheckpoints(ctx, &workerpb.UpdateRetainedCheckpointsRequest{CheckpointIds: ids})
	})
}
func (o *opClient) NeedsTable(ctx context.Context, uri string) (bool, error) {
	n := o.node()
	if n == nil || !n.alive {
		return false, errors.New("simnet: operator unreachable")
	}
	return n.op.HandleNeedsTable(uri), nil
}

type recSink struct{}

func (recSink) Write([]byte) error { return nil }

type srStub struct {
	proto.UnimplementedSourceRunner
	id string
}

func (s *srStub) ID() string   { return s.id }
func (s *srStub) Host() string { return "host-" + s.id }
func (s *srStub) Deploy(ctx context.Context, req *workerpb.DeploySourceRunnerRequest) error {
	simrt.Yield("rpc.DeploySourceRunner")
	return nil
}

// handleEvent is what the connect adapter + retrying client do for one event.
func (w *opWorld) handleEvent(n *opNode, sender string, ev *workerpb.Event) error {
	prev := simrt.Group()
	simrt.SetGroup(n.group) // the connect handler runs in the operator's process
	defer simrt.SetGroup(prev)
	for {
		err := n.op.HandleEvent(context.Background(), sender, ev)
		if err != nil && connect.CodeOf(err) == connect.CodeUnavailable {
			simrt.Sleep("rpc-backoff", 10*time.Millisecond)
			continue
		}
		return err
	}
}

func (w *opWorld) startOperator(id string) *opNode {
	c := w.c
	ctx, cancel := context.WithCancel(context.Background())
	n := &opNode{id: id, group: "op-" + id, cancel: cancel, alive: true}
	simrt.SetGroup(n.group)
	n.op = operator.NewOperator(operator.NewOperatorParams{
		ID: id, Host: "host-" + id, Job: jobStub{w: w}, UserHandler: &opHandler{m: w.m, op: id},
		EventBatching: batching.EventBatcherParams{MaxSize: int(c.Cfg("bsize", 1)), MaxDelay: time.Duration(c.Cfg("bdelay_us", 0)) * time.Microsecond},
		Clock:         clocks.NewFrozenClock(),
		NeighborOperatorFactory: func(senderID string, node *jobpb.NodeIdentity) proto.Operator {
			return &opClient{w: w, sender: senderID, id: node.Id}
		},
	})
	w.mu.Lock()
	w.ops[id] = n
	w.mu.Unlock()
	c.Go("operator-"+id, func() {
		simrt.SetGroup(n.group)
		if err := n.op.Start(ctx); err != nil {
			c.Violate(w.prop+"/operator-start-error", "operator %s: %v", id, err)
		}
	})
	return n
}

func installOpHooks(c *sim.Ctx, disk *sim.Disk) {
	installDKVHooks(c)
	mem, wal, target, l0 := uint64(c.Cfg("mem", 200)), uint64(c.Cfg("wal", 1000)), uint64(c.Cfg("target", 300)), int(c.Cfg("l0", 2))
	dkv.VerifTuneOptions = func(o *dkv.DBOptions) {
		if o.MemTableSize == 0 {
			o.MemTableSize, o.MaxWALSize, o.TargetFileSize, o.L0TableNumCompactionTrigger = mem, wal, target, l0
		}
	}
	tc := uint64(c.Cfg("tcache", 1<<30))
	operator.VerifTimerCacheSize = func(uint64) uint64 { return tc }
	storage.VerifFileSystemFactory = func(location string) storage.FileSystem {
		node := location[strings.LastIndex(location, "/")+1:]
		if i := strings.LastIndex(node, "-"); i > 0 && isDigits(node[i+1:]) { // "<operator id>-<redeployment>"
			node = node[:i]
		}
		return disk.FS("op-"+node, location)
	}
}

// buildItems turns the generated ops into per-sender streams with every
// sender's barrier placed at a position of its own inside the round.
func buildItems(c *sim.Ctx, senders int) (streams [][]opItem, preBarrier map[uint64]map[string]bool, keyOf map[string]string) {
	r := rand.New(rand.NewPCG(uint64(c.Cfg("dataseed", 1)), 5))
	nkeys := int(c.Cfg("nkeys", 3))
	single := senders == 1
	streams = make([][]opItem, senders)
	preBarrier = map[uint64]map[string]bool{}
	keyOf = map[string]string{}
	wm := make([]int64, senders)
	ck := uint64(0)
	roundStart := make([]int, senders)
	flushRound := func() {
		ck++
		pre := map[string]bool{}
		if ck > 1 {
			for id := range preBarrier[ck-1] {
				pre[id] = true
			}
		}
		for s := 0; s < senders; s++ {
			// barrier position: anywhere in this round's part of the stream
			lo, hi := roundStart[s], len(streams[s])
			pos := lo
			if hi > lo {
				pos = lo + r.IntN(hi-lo+1)
			}
			bar := opItem{kind: "bar", sender: s, ckpt: ck}
			streams[s] = append(streams[s][:pos], append([]opItem{bar}, streams[s][pos:]...)...)
			for _, it := range streams[s][:pos] {
				if it.kind == "ev" {
					pre[it.script.ID] = true
				}
			}
			roundStart[s] = len(streams[s])
		}
		preBarrier[ck] = pre
	}
	for i, op := range c.Case.Ops {
		switch op.K {
		case "ev":
			s := int(op.Arg(0)) % senders
			key := opSubjectKeys[int(op.Arg(1))%min(nkeys, len(opSubjectKeys))]
			er := rand.New(rand.NewPCG(uint64(op.Arg(3)), 11))
			sc := evScript{ID: fmt.Sprintf("s%d.%d", s, i), S: s, I: i}
			// every event records itself (so that the state is history sensitive)
			ns := fmt.Sprintf("s%d", s)
			sc.Muts = append(sc.Muts, mutScript{NS: ns, K: []byte(sc.ID), V: []byte{byte(i)}})
			for j := int64(0); j < op.Arg(2); j++ {
				mns := ns
				if single {
					mns = opNamespaces[er.IntN(len(opNamespaces))]
				} else if er.IntN(2) == 0 {
					mns = ns + opNamespaces[er.IntN(3)]
				}
				ek := opEntryKeys[er.IntN(len(opEntryKeys))]
				if er.IntN(3) == 0 {
					sc.Muts = append(sc.Muts, mutScript{NS: mns, K: ek, Del: true})
				} else {
					v := make([]byte, er.IntN(3)*er.IntN(12))
					for x := range v {
						v[x] = byte(er.IntN(256))
					}
					sc.Muts = append(sc.Muts, mutScript{NS: mns, K: ek, V: v})
				}
			}
			if t := op.Arg(4); t > 0 {
				sc.Timers = []int64{t}
				if er.IntN(6) == 0 {
					sc.Timers = append(sc.Timers, t) // identical timer twice
				}
			}
			streams[s] = append(streams[s], opItem{kind: "ev", sender: s, idx: i, key: key, script: sc})
			keyOf[sc.ID] = string(key)
		case "wm":
			s := int(op.Arg(0)) % senders
			wm[s] += op.Arg(1)
			streams[s] = append(streams[s], opItem{kind: "wm", sender: s, wm: wm[s]})
		case "barrier":
			flushRound()
		}
	}
	if ck == 0 || roundStartAny(roundStart, streams) {
		flushRound()
	}
	return
}

func roundStartAny(rs []int, streams [][]opItem) bool {
	for s := range streams {
		if rs[s] < len(streams[s]) {
			return true
		}
	}
	return false
}

func bodyOp(c *sim.Ctx) {
	prop := c.Prop
	disk := sim.NewDisk(c)
	installOpHooks(c, disk)
	defer func() {
		dkv.VerifTuneOptions, operator.VerifTimerCacheSize, storage.VerifFileSystemFactory = nil, nil, nil
	}()
	debugDisk = disk
	senders := int(c.Cfg("senders", 1))
	kgs := int(c.Cfg("kgs", 8))
	nOps := int(c.Cfg("ops", 1))
	w := &opWorld{c: c, prop: prop, disk: disk, m: newRefModel(c, senders), ops: map[string]*opNode{}, regs: map[string]bool{}, acks: map[uint64][]*ackRec{}, kgs: kgs, senders: senders}
	streams, pre, keyOf := buildItems(c, senders)
	w.preBarrier, w.keyOf = pre, keyOf
	setCuts := func() {
		w.m.mu.Lock()
		for s := range streams {
			last := int64(0)
			for _, it := range streams[s] {
				switch it.kind {
				case "wm":
					last = it.wm
				case "bar":
					if w.m.cutWM[it.ckpt] == nil {
						w.m.cutWM[it.ckpt] = make([]int64, senders)
					}
					w.m.cutWM[it.ckpt][s] = last
				}
			}
		}
		w.m.mu.Unlock()
	}
	setCuts()
	w.pos = make([]int, senders)
	srIDs := make([]string, senders)
	for s := range srIDs {
		srIDs[s] = fmt.Sprintf("sr%d", s)
	}
	maxCkpt := uint64(len(pre))

	// deploy(ids, ckpt): the real Assembly.Deploy over operator clients
	deploy := func(ids []string, ckpt *snapshotpb.JobCheckpoint) bool {
		w.ks = partitioning.NewKeySpace(kgs, len(ids))
		w.assembly = ids
		ks := w.ks
		w.m.mu.Lock()
		w.m.owner = func(key []byte) string { return ids[ks.RangeIndex(key)] }
		w.m.mu.Unlock()
		ops := make([]proto.Operator, len(ids))
		for i, id := range ids {
			ops[i] = &opClient{w: w, sender: "job", id: id}
		}
		srs := make([]proto.SourceRunner, senders)
		for s := range srs {
			srs[s] = &srStub{id: srIDs[s]}
		}
		simrt.SetGroup("job")
		cfg := &config.Config{WorkerCount: len(ids), KeyGroupCount: kgs, WorkingStorageLocation: "/store"}
		if err := jobs.NewAssembly(ops, srs).Deploy(cfg, ckpt); err != nil {
			c.Violate(prop+"/deploy-failed", "Assembly.Deploy onto %v: %v", ids, err)
			return false
		}
		return true
	}
	waitRegistered := func(ids []string) {
		for {
			w.mu.Lock()
			ok := true
			for _, id := range ids {
				ok = ok && w.regs[id]
			}
			w.mu.Unlock()
			if ok {
				return
			}
			simrt.Sleep("wait-register", time.Millisecond)
		}
	}

	// --- phase 1 ---
	ids := make([]string, nOps)
	for i := range ids {
		ids[i] = fmt.Sprintf("opA%d", i)
		w.startOperator(ids[i])
	}
	waitRegistered(ids)
	if !deploy(ids, nil) {
		return
	}

	// runPhase drives streams[s][from[s]:to[s]] against the current assembly: one
	// task per (sender, operator) stream, as the source runner's per-operator
	// sender goroutines do.
	runPhase := func(upTo uint64) bool {
		var wg sync.WaitGroup
		failed := false
		for s := 0; s < senders; s++ {
			for oi, id := range w.assembly {
				s, oi, id := s, oi, id
				w.mu.Lock()
				n := w.ops[id]
				w.mu.Unlock()
				wg.Add(1)
				c.Go(fmt.Sprintf("stream-sr%d-%s", s, id), func() {
					defer wg.Done()
					simrt.SetGroup("sr" + fmt.Sprint(s))
					for _, it := range streams[s][w.pos[s]:] {
						if c.Violated() {
							return
						}
						var ev *workerpb.Event
						switch it.kind {
						case "ev":
							if w.ks.RangeIndex(it.key) != oi {
								continue
							}
							val, _ := json.Marshal(it.script)
							ev = &workerpb.Event{Event: &workerpb.Event_KeyedEvent{KeyedEvent: &handlerpb.KeyedEvent{Key: it.key, Value: val, Timestamp: timestamppb.New(time.Unix(1, 0))}}}
						case "wm":
							ev = &workerpb.Event{Event: &workerpb.Event_Watermark{Watermark: &workerpb.Watermark{Timestamp: timestamppb.New(time.Unix(it.wm, 0))}}}
							w.m.wmInvoke(id, s, it.wm)
						case "bar":
							ev = &workerpb.Event{Event: &workerpb.Event_CheckpointBarrier{CheckpointBarrier: &workerpb.CheckpointBarrier{CheckpointId: it.ckpt}}}
							w.m.barInvoke(id, it.ckpt)
						}
						simrt.Yield("stream:" + it.kind)
						if err := w.handleEvent(n, srIDs[s], ev); err != nil {
							c.Violate(prop+"/handle-event-error", "sender sr%d -> operator %s, %s item %d: %v", s, id, it.kind, it.idx, err)
							failed = true
							return
						}
						if it.kind == "wm" {
							w.m.wmReturned(id, s, it.wm)
						}
						c.OpDone()
						if it.kind == "bar" && it.ckpt == upTo {
							return // this phase ends right behind barrier upTo on every stream
						}
					}
				})
			}
		}
		gcStop := make(chan struct{})
		if c.Cfg("gc", 0) == 1 {
			// garbage collection as a scheduled event while the streams run: tables a
			// compaction made unreachable are cleaned up (shared ones only after asking
			// the neighbours), retention updates follow completed checkpoints
			c.Go("gc", func() {
				simrt.SetGroup("gc")
				for steps := 0; steps < 4; steps++ { // forced collections are expensive in real time: a few per phase
					select {
					case <-gcStop:
						return
					default:
					}
					simrt.Sleep("gc-wait", 5*time.Millisecond)
					n := gcStep(w.disk)
					c.ProbeN("gc-deleted-files", n)
					c.Probe("gc")
				}
			})
		}
		wg.Wait()
		close(gcStop)
		simrt.Yield("phase-done")
		for s := range streams { // the next phase resumes behind barrier upTo
			for i := w.pos[s]; i < len(streams[s]); i++ {
				if streams[s][i].kind == "bar" && streams[s][i].ckpt == upTo {
					w.pos[s] = i + 1
					break
				}
			}
		}
		return !failed && !c.Violated()
	}

	// rescales: a chain of restores into other operator sets, each from the last checkpoint
	// of the phase before it (a second one merges / splits what the first one distributed)
	type rescaleStep struct {
		n      int
		reuse  bool
		order  int64
		prefix string
	}
	var chain []rescaleStep
	if (prop == "C06" || prop == "C09") && maxCkpt >= 2 {
		chain = append(chain, rescaleStep{int(c.Cfg("ops2", 1)), c.Cfg("reuse", 0) == 1, c.Cfg("ackorder", 0), "opB"})
		if n3 := int(c.Cfg("ops3", 0)); n3 > 0 && maxCkpt >= 3 {
			chain = append(chain, rescaleStep{n3, c.Cfg("reuse2", 0) == 1, c.Cfg("ackorder2", 0), "opC"})
		}
	}
	phase1Ckpt := maxCkpt - uint64(len(chain))
	if !runPhase(phase1Ckpt) {
		return
	}
	// every operator must have acknowledged every barrier it was sent
	checkAcks := func(upTo uint64, assembly []string) bool {
		w.mu.Lock()
		defer w.mu.Unlock()
		for id := uint64(1); id <= upTo; id++ {
			got := map[string]int{}
			for _, a := range w.acks[id] {
				got[a.op]++
			}
			for _, op := range assembly {
				if got[op] != 1 {
					c.Violate(prop+"/ack-count", "operator %s acknowledged checkpoint %d %d times after every sender delivered barrier %d", op, id, got[op], id)
					return false
				}
			}
		}
		return true
	}
	if !checkAcks(phase1Ckpt, w.assembly) {
		return
	}
	verified := map[*ackRec]bool{}
	verifyNew := func() bool {
		w.mu.Lock()
		var all []*ackRec
		var cids []uint64
		for id := range w.acks {
			cids = append(cids, id)
		}
		sort.Slice(cids, func(i, j int) bool { return cids[i] < cids[j] })
		for _, id := range cids {
			for _, a := range w.acks[id] {
				if !verified[a] {
					verified[a] = true
					all = append(all, a)
				}
			}
		}
		w.mu.Unlock()
		simrt.SetGroup("verifier")
		for _, a := range all {
			if !w.verifyCheckpoint(a) {
				return false
			}
		}
		return true
	}
	// checkpoints are verified at the end of the phase that took them: a later
	// restore into the same directory legitimately rewrites an operator's document
	if !verifyNew() {
		return
	}

	// --- phase 2 (C06): rescale from the last checkpoint of phase 1 ---
	for ri, step := range chain {
		fromCkpt := phase1Ckpt + uint64(ri)
		toCkpt := fromCkpt + 1
		w.mu.Lock()
		recs := append([]*ackRec(nil), w.acks[fromCkpt]...)
		w.mu.Unlock()
		// any permutation of the recorded operator checkpoints
		pr := rand.New(rand.NewPCG(uint64(step.order), 3))
		pr.Shuffle(len(recs), func(i, j int) { recs[i], recs[j] = recs[j], recs[i] })
		jc := &snapshotpb.JobCheckpoint{Id: fromCkpt}
		for _, a := range recs {
			jc.OperatorCheckpoints = append(jc.OperatorCheckpoints, a.ack)
		}
		if ri > 0 && w.sourcesHoldForeignKeys(recs) {
			// triage tag for the known finding "tables shared by an earlier restore carry stale
			// copies of keys their operator does not own" (DESIGN.md section 15)
			c.AddTag("a source checkpoint of this restore holds keys outside its operator's range, left by an earlier restore")
			c.Probe("second-rescale-with-foreign-keys")
		}
		n2 := step.n
		reuse := step.reuse
		old := w.assembly
		ids2 := make([]string, n2)
		for i := range ids2 {
			if reuse && i < len(old) {
				ids2[i] = old[i] // the same operator process is redeployed
				c.Probe("operator-redeployed-in-place")
			} else {
				ids2[i] = fmt.Sprintf("%s%d", step.prefix, i)
				w.startOperator(ids2[i])
			}
		}
		for _, id := range old {
			if !contains(ids2, id) { // the old operator's process goes away
				w.mu.Lock()
				n := w.ops[id]
				n.alive = false
				w.mu.Unlock()
				c.S.KillGroup(n.group)
				disk.Kill(n.group)
				c.Fault("operator-killed")
			}
		}
		waitRegistered(ids2)
		// the model's expectation after the restore: state and timers as of the checkpoint
		w.m.mu.Lock()
		w.m.shadow = map[string]nsState{}
		w.m.pending = map[timerKey]bool{}
		for _, a := range recs {
			for k, st := range a.state {
				w.m.shadow[k] = cloneState(st)
			}
			for tk := range a.timers {
				w.m.pending[tk] = true
			}
		}
		w.m.mu.Unlock()
		w.mu.Lock()
		w.restored = true
		w.mu.Unlock()
		if !deploy(ids2, jc) {
			return
		}
		c.Probe(fmt.Sprintf("rescale-%dto%d", len(old), n2))
		if ri == 1 {
			c.Probe("second-rescale")
		}
		if !runPhase(toCkpt) || !checkAcks2(w, c, prop, toCkpt, ids2) {
			return
		}
		// checkpoints of this phase are verified before a later restore may rewrite documents
		if !verifyNew() {
			return
		}
		if c.Cfg("gc", 0) == 1 && ri == len(chain)-1 {
			// the job announces that only the new checkpoint has to be retained: the
			// restored (composite) checkpoint and with it the last references to some
			// shared tables go away
			simrt.SetGroup("job")
			for _, id := range ids2 {
				cl := &opClient{w: w, sender: "job", id: id}
				if err := cl.UpdateRetainedCheckpoints(context.Background(), []uint64{maxCkpt}); err != nil {
					c.Violate(prop+"/retain-error", "UpdateRetainedCheckpoints(%d) at %s: %v", maxCkpt, id, err)
					return
				}
			}
			c.Probe("retain")
			for i := 0; i < 3; i++ {
				simrt.Sleep("gc-settle", 2*time.Millisecond)
				c.ProbeN("gc-deleted-files", gcStep(w.disk))
			}
		}
	}

	// --- drain: every sender's watermark passes every timer, then a last barrier ---
	final := maxCkpt + 1
	w.mu.Lock()
	prefinal := map[string]bool{}
	for id := range pre[maxCkpt] {
		prefinal[id] = true
	}
	for s := range streams {
		for _, it := range streams[s] {
			if it.kind == "ev" {
				prefinal[it.script.ID] = true
			}
		}
		streams[s] = append(streams[s], opItem{kind: "wm", sender: s, wm: 1 << 20}, opItem{kind: "bar", sender: s, ckpt: final})
	}
	w.preBarrier[final] = prefinal
	w.mu.Unlock()
	setCuts()
	if !runPhase(final) {
		return
	}
	w.m.mu.Lock()
	if len(w.m.pending) != 0 {
		c.Violate(prop+"/timer-missing", "%d timers never fired although every sender's watermark passed them: %v", len(w.m.pending), keysTimer(w.m.pending))
	}
	for _, id := range sortedKeysAny(prefinal) {
		if w.m.processed[id] != 1 {
			c.Violate(prop+"/event-count", "event %s reached the handler %d times", id, w.m.processed[id])
		}
	}
	w.m.mu.Unlock()
	if c.Violated() {
		return
	}
	// --- content of every checkpoint acknowledged since, read back independently ---
	if !verifyNew() {
		return
	}
	cids := w.acks
	c.SetState(fmt.Sprintf("ops%d,s%d,ck%d", nOps, senders, len(cids)))
}

func checkAcks2(w *opWorld, c *sim.Ctx, prop string, id uint64, assembly []string) bool {
	w.mu.Lock()
	defer w.mu.Unlock()
	got := map[string]int{}
	for _, a := range w.acks[id] {
		got[a.op]++
	}
	for _, op := range assembly {
		if got[op] != 1 {
			c.Violate(prop+"/ack-count", "after the rescale operator %s acknowledged checkpoint %d %d times", op, id, got[op])
			return false
		}
	}
	return true
}

func contains(s []string, x string) bool {
	for _, v := range s {
		if v == x {
			return true
		}
	}
	return false
}

func keysTimer(m map[timerKey]bool) []timerKey {
	var ks []timerKey
	for k := range m {
		ks = append(ks, k)
	}
	sort.Slice(ks, func(i, j int) bool { return ks[i].t < ks[j].t || (ks[i].t == ks[j].t && ks[i].key < ks[j].key) })
	return ks
}

// verifyCheckpoint opens an acknowledged operator checkpoint with an
// independent DKV instance and compares everything in it with the reference
// state of exactly the pre-barrier events (C02 / C06) and checks where it is
// stored (C05: big-endian key group of the independent hash, inside the range
// the operator reported).
func (w *opWorld) verifyCheckpoint(a *ackRec) bool {
	c, prop := w.c, w.prop
	var db *dkv.DB
	var err error
	func() {
		defer func() {
			if p := recover(); p != nil {
				err = fmt.Errorf("panic: %v", p)
			}
		}()
		db = dkv.Open(dkv.DBOptions{FileSystem: w.disk.FS("verifier", "/verify/"+a.op+fmt.Sprint(a.ack.CheckpointId)), DataOwnership: &sharedOwnership{}, MemTableSize: 1 << 30, MaxWALSize: 1 << 30},
			[]recovery.CheckpointHandle{{CheckpointID: a.ack.CheckpointId, URI: a.ack.DkvFileUri}})
	}()
	if err != nil {
		c.Violate(prop+"/checkpoint-unreadable", "operator %s checkpoint %d (%s): %v", a.op, a.ack.CheckpointId, a.ack.DkvFileUri, err)
		return false
	}
	got, _, err := readAll(db, nil)
	if err != nil {
		c.Violate(prop+"/checkpoint-unreadable", "operator %s checkpoint %d: scan: %v", a.op, a.ack.CheckpointId, err)
		return false
	}
	p, err := decodePersisted(got)
	if err != nil {
		c.Violate(prop+"/checkpoint-foreign-key", "operator %s checkpoint %d: %v", a.op, a.ack.CheckpointId, err)
		return false
	}
	rng := a.ack.KeyGroupRange
	for _, subject := range sortedKeysAny(p.groups) {
		g := p.groups[subject]
		if want := refKeyGroup([]byte(subject), w.kgs); g != want {
			c.Violate(prop+"/stored-under-wrong-group", "operator %s persisted key %q under key group %d, MurmurHash3-32(key, 0) mod %d is %d", a.op, subject, g, w.kgs, want)
			return false
		}
		if int32(g) < rng.Start || int32(g) >= rng.End {
			if a.restored {
				// SST files are shared, not rewritten, when a checkpoint is restored
				// into another assembly: such a table carries its previous owners'
				// keys. They are not this operator's state (it never reads or
				// serves them); only what it owns is compared below.
				delete(p.state, subject)
				for tk := range p.timers {
					if tk.key == subject {
						delete(p.timers, tk)
					}
				}
				c.Probe("foreign-keys-in-shared-table")
				continue
			}
			c.Violate(prop+"/stored-outside-range", "operator %s (range [%d,%d)) persisted key %q of key group %d", a.op, rng.Start, rng.End, subject, g)
			return false
		}
	}
	// exact content
	keys := map[string]bool{}
	for k := range a.state {
		keys[k] = true
	}
	for k := range p.state {
		keys[k] = true
	}
	for _, k := range sortedKeysAny(keys) {
		if gs, ws := stateString(p.state[k]), stateString(a.state[k]); gs != ws {
			c.Violate(prop+"/checkpoint-content", "operator %s checkpoint %d, key %q: checkpoint holds %s, the events delivered before the barriers amount to %s", a.op, a.ack.CheckpointId, k, gs, ws)
			return false
		}
	}
	if fmt.Sprint(keysTimer(p.timers)) != fmt.Sprint(keysTimer(a.timers)) {
		c.Violate(prop+"/checkpoint-timers", "operator %s checkpoint %d holds timers %v, pending at the cut were %v", a.op, a.ack.CheckpointId, keysTimer(p.timers), keysTimer(a.timers))
		return false
	}
	c.Probe("checkpoint-verified")
	_ = sst.ResetMetrics
	return true
}

func isDigits(s string) bool {
	for _, c := range s {
		if c < '0' || c > '9' {
			return false
		}
	}
	return s != ""
}

// sortedKeysAny: map keys in sorted order - wherever a loop over a map can
// report a violation, the *first* one reported must not depend on Go's
// randomised map iteration order (the replay compares class and log hash).
func sortedKeysAny[V any](m map[string]V) []string {
	ks := make([]string, 0, len(m))
	for k := range m {
		ks = append(ks, k)
	}
	sort.Strings(ks)
	return ks
}

// sourcesHoldForeignKeys: does a table referenced by one of these operator checkpoints
// hold an entry whose key group lies outside the range that operator reported? (read from
// the checkpoint documents and the table files, decoded independently)
func (w *opWorld) sourcesHoldForeignKeys(recs []*ackRec) bool {
	for _, a := range recs {
		raw, ok := w.disk.ReadRaw(a.ack.DkvFileUri)
		if !ok {
			continue
		}
		var doc struct {
			Checkpoints []struct {
				ID     uint64 `json:"id"`
				Levels [][]struct {
					URI string
				} `json:"levels"`
			} `json:"checkpoints"`
		}
		if json.Unmarshal(raw, &doc) != nil {
			continue
		}
		rng := a.ack.KeyGroupRange
		for _, cp := range doc.Checkpoints {
			if cp.ID != a.ack.CheckpointId {
				continue
			}
			for _, level := range cp.Levels {
				for _, t := range level {
					b, ok := w.disk.ReadRaw(t.URI)
					if !ok {
						continue
					}
					ents, err := decodeTableFile(b)
					if err != nil {
						continue
					}
					for _, e := range ents {
						if len(e.key) >= 2 {
							g := int32(binary.BigEndian.Uint16([]byte(e.key[:2])))
							if g < rng.Start || g >= rng.End {
								return true
							}
						}
					}
				}
			}
		}
	}
	return false
}
