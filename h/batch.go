package h

import (
	"context"
	"fmt"
	"math/rand/v2"
	"sync"
	"time"

	"reduction.dev/reduction/batching"
	simrt "reduction.dev/reduction/verifsimrt"
	"verif/sim"
	"verif/simcore"
)

// H-BATCH: the real batching.EventBatcher, ReorderFetcher, ReorderBuffer and
// clocks.SystemTimer (running on the bubble's fake clock). The simulator owns
// every interleaving of the adder, the size flush, the time-out flusher, the
// asynchronous fetches and the consumer, and decides when the clock moves.
var HBatch = &sim.Harness{
	Name: "H-BATCH",
	Gen:  genBatch,
	Body: bodyBatch,
	Real: []string{"batching.EventBatcher", "batching.ReorderFetcher", "batching.ReorderBuffer", "clocks.SystemTimer (time.AfterFunc on the fake clock)"},
	Stub: []string{"fetch function (identity with scheduler-chosen latency)", "consumer of Output (task with back-pressure)"},
}

func genBatch(r *rand.Rand, prop, tier string) simcore.Case {
	cs := simcore.Case{Cfg: map[string]int64{}}
	sim.DrawPolicy(r, &cs)
	cs.Cfg["pol.jump_us"] = []int64{50, 1000, 5000, 53000}[r.IntN(4)]
	cs.Cfg["mode"] = int64(r.IntN(2)) // 0 = EventBatcher alone, 1 = ReorderFetcher
	cs.Cfg["maxsize"] = int64(1 + r.IntN(5))
	cs.Cfg["delay_us"] = []int64{0, 1, 50, 1000, 5000, 20000}[r.IntN(6)]
	cs.Cfg["bufsize"] = int64(1 + r.IntN(4))
	cs.Cfg["latency"] = int64(r.IntN(4)) // max extra yields inside a fetch
	n := 3 + r.IntN(25)
	if tier == "thorough" {
		n = 3 + r.IntN(60)
	}
	item := int64(0)
	for i := 0; i < n; i++ {
		switch x := r.IntN(10); {
		case x < 7:
			cs.Ops = append(cs.Ops, simcore.Op{K: "add", A: []int64{item}})
			item++
		case x < 8:
			cs.Ops = append(cs.Ops, simcore.Op{K: "flush"})
		case x < 9:
			cs.Ops = append(cs.Ops, simcore.Op{K: "sleep", A: []int64{int64(r.IntN(8000))}})
		default:
			cs.Ops = append(cs.Ops, simcore.Op{K: "stale", A: []int64{int64(r.IntN(4))}})
		}
	}
	return cs
}

func bodyBatch(c *sim.Ctx) {
	if c.Cfg("mode", 0) == 0 {
		bodyEventBatcher(c)
	} else {
		bodyReorderFetcher(c)
	}
}

// renumber makes the items of the (possibly shrunk) workload 0..n-1 in order.
func addItems(ops []simcore.Op) int {
	n := 0
	for _, o := range ops {
		if o.K == "add" {
			n++
		}
	}
	return n
}

func bodyEventBatcher(c *sim.Ctx) {
	prop := c.Prop
	ctx, cancel := context.WithCancel(context.Background())
	defer cancel()
	b := batching.NewEventBatcher[int](ctx, batching.EventBatcherParams{
		MaxSize:  int(c.Cfg("maxsize", 2)),
		MaxDelay: time.Duration(c.Cfg("delay_us", 1000)) * time.Microsecond,
	})
	var mu sync.Mutex // real mutex around the harness's own bookkeeping only
	var out []int
	flushed := 0 // number of non-empty batches handed out so far == token of the current batch
	record := func(batch []int, token batching.BatchToken, how string) {
		mu.Lock()
		defer mu.Unlock()
		if len(batch) == 0 {
			return
		}
		if token != batching.CurrentBatch && int(token) != flushed {
			c.Violate(prop+"/stale-token-flushed", "Flush(token %d) returned %v although %d batches were already flushed (%s)", token, batch, flushed, how)
		}
		flushed++
		out = append(out, batch...)
		c.Probe("flush-" + how)
	}
	// the time-out consumer, as the operator's event loop / the fetcher's flusher goroutine do
	c.Go("timeouts", func() {
		for {
			var tok batching.BatchToken
			select {
			case tok = <-b.BatchTimedOut:
			case <-ctx.Done():
				return
			}
			simrt.Yield("timeout-received")
			batch := b.Flush(tok)
			record(batch, tok, "timeout")
		}
	})
	next := 0
	for _, op := range c.Case.Ops {
		if c.Violated() {
			return
		}
		simrt.Yield("op:" + op.K)
		switch op.K {
		case "add":
			b.Add(next)
			next++
			if b.IsFull() {
				record(b.Flush(batching.CurrentBatch), batching.CurrentBatch, "size")
			}
		case "flush":
			record(b.Flush(batching.CurrentBatch), batching.CurrentBatch, "explicit")
		case "sleep":
			simrt.Sleep("harness-sleep", time.Duration(op.Arg(0))*time.Microsecond)
		case "stale":
			// a token of a batch that was already handed out must flush nothing
			mu.Lock()
			f := flushed
			mu.Unlock()
			if f > 0 {
				tok := batching.BatchToken(f - 1 - int(op.Arg(0))%f)
				if got := b.Flush(tok); len(got) != 0 {
					c.Violate(prop+"/stale-token-flushed", "Flush(stale token %d) returned %v (current token %d)", tok, got, f)
				}
				c.Probe("stale-token")
			}
		}
		c.OpDone()
	}
	// drain: a final explicit flush, then let pending timers fire
	simrt.Yield("final")
	record(b.Flush(batching.CurrentBatch), batching.CurrentBatch, "explicit")
	simrt.Sleep("settle", 50*time.Millisecond)
	mu.Lock()
	defer mu.Unlock()
	if fmt.Sprint(out) != fmt.Sprint(seq(next)) {
		c.Violate(prop+"/batcher-sequence", "concatenated batches %v, items added %v", out, seq(next))
	}
}

func seq(n int) []int {
	s := make([]int, n)
	for i := range s {
		s[i] = i
	}
	return s
}

func bodyReorderFetcher(c *sim.Ctx) {
	prop := c.Prop
	ctx, cancel := context.WithCancel(context.Background())
	defer cancel()
	b := batching.NewEventBatcher[int](ctx, batching.EventBatcherParams{
		MaxSize:  int(c.Cfg("maxsize", 2)),
		MaxDelay: time.Duration(c.Cfg("delay_us", 1000)) * time.Microsecond,
	})
	errs := make(chan error, 100)
	lat := int(c.Cfg("latency", 0))
	rf := batching.NewReorderFetcher(ctx, batching.NewReorderFetcherParams[int, int]{
		Batcher: b, BufferSize: int(c.Cfg("bufsize", 1)), ErrChan: errs,
		FetchBatch: func(ctx context.Context, ev []int) ([]int, error) {
			// asynchronous KeyEventBatch call: latency = how long the scheduler leaves it parked
			n := 1
			if lat > 0 {
				n += simrt.Choose(lat+1, "fetch-latency")
			}
			for i := 0; i < n; i++ {
				simrt.Yield("fetch")
			}
			c.Probe("fetch")
			return append([]int(nil), ev...), nil
		},
	})
	total := addItems(c.Case.Ops)
	var mu sync.Mutex
	var got []int
	done := make(chan struct{})
	c.Go("consumer", func() {
		for {
			var v int
			select {
			case v = <-rf.Output:
			case <-ctx.Done():
				return
			}
			simrt.Yield("consume")
			mu.Lock()
			got = append(got, v)
			n := len(got)
			mu.Unlock()
			if n == total {
				close(done)
				return
			}
		}
	})
	next := 0
	for _, op := range c.Case.Ops {
		if c.Violated() {
			return
		}
		simrt.Yield("op:" + op.K)
		switch op.K {
		case "add":
			rf.Add(ctx, next)
			next++
		case "flush":
			rf.Flush(ctx)
		case "sleep":
			simrt.Sleep("harness-sleep", time.Duration(op.Arg(0))*time.Microsecond)
		}
		c.OpDone()
	}
	simrt.Yield("final")
	rf.Flush(ctx)
	if total > 0 {
		// bounded liveness: everything added comes out once nothing new arrives
		select {
		case <-done:
		case <-time.After(10 * time.Second):
			simrt.Yield("gave-up")
		}
		simrt.Yield("check")
	}
	mu.Lock()
	defer mu.Unlock()
	if fmt.Sprint(got) != fmt.Sprint(seq(next)) {
		class := prop + "/fetcher-order"
		if len(got) < next {
			class = prop + "/fetcher-lost"
		} else if len(got) > next {
			class = prop + "/fetcher-duplicate"
		}
		c.Violate(class, "fetcher output %v, inputs %v", got, seq(next))
	}
	select {
	case err := <-errs:
		c.Violate(prop+"/fetcher-error", "%v", err)
	default:
	}
}
