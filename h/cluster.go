package h

import (
	"context"
	"encoding/binary"
	"encoding/json"
	"fmt"
	"io"
	"log/slog"
	mrand "math/rand/v2"
	"os"
	"sort"
	"strings"
	"time"

	kinesistypes "github.com/aws/aws-sdk-go-v2/service/kinesis/types"
	"github.com/segmentio/ksuid"
	gproto "google.golang.org/protobuf/proto"
	"reduction.dev/reduction-protocol/jobconfigpb"
	"reduction.dev/reduction/batching"
	"reduction.dev/reduction/clocks"
	"reduction.dev/reduction/config"
	"reduction.dev/reduction/connectors"
	"reduction.dev/reduction/dkv"
	"reduction.dev/reduction/dkv/recovery"
	"reduction.dev/reduction/dkv/storage"
	"reduction.dev/reduction/jobs"
	"reduction.dev/reduction/partitioning"
	"reduction.dev/reduction/proto"
	"reduction.dev/reduction/proto/jobpb"
	"reduction.dev/reduction/proto/snapshotpb"
	simrt "reduction.dev/reduction/verifsimrt"
	"reduction.dev/reduction/workers/operator"
	"reduction.dev/reduction/workers/sourcerunner"
	"verif/sim"
	"verif/simcore"
)

// H-CLUSTER: the real jobs.Job (registry, liveness, assembly, deploy,
// checkpoint ticker) with the real snapshots.Store, N workers each made of the
// real sourcerunner.SourceRunner and operator.Operator (composed exactly as
// workers.Worker.Start does), connectors.ReadSourceChannel, wmark, partitioning,
// batching, full DKV - one simulation per OS process, because the repository
// leaks time.Tickers and a bubble with a live ticker never ends.
var HCluster = &sim.Harness{
	Name:     "H-CLUSTER",
	OneShot:  true,
	Gen:      genCluster,
	Body:     bodyCluster,
	MaxSteps: 1500000,
	Real:     []string{"jobs.Job / Registry / LivenessTracker / Assembly", "storage/snapshots.Store", "workers/sourcerunner (SourceRunner, operatorCluster, batchingOperator)", "workers/operator (all)", "workers/wmark", "connectors.ReadSourceChannel", "batching", "partitioning", "dkv (all)", "clocks.SystemClock / SystemTimer on the fake clock", "generated protobuf code", "connectors/kinesis SourceSplitter / SplitTracker / SourceReader and the AWS SDK Kinesis client (Kinesis mode of C16 runs)"},
	Stub:     []string{"connect/HTTP transport -> SimNet calling the same Handle* methods (503 retry, transport errors, kill, partition, lost request/response)", "workers.Worker -> identical composition of SourceRunner + Operator (workers.New cannot pass a SourceReaderFactory)", "source connector -> SimSource (splits with checkpointable cursors); in Kinesis mode the real connector over the repository's kinesisfake served in-process (hook K5, no sockets), reads paced by a wrapper", "user handler -> self-verifying reference handler", "storage -> SimDisk", "sinks -> discard"},
}

func genCluster(r *mrand.Rand, prop, tier string) simcore.Case {
	cs := genDKV(r, "C07", tier)
	cs.Ops = nil
	pick := func(v ...int64) int64 { return v[r.IntN(len(v))] }
	cs.Cfg["pol.sticky"] = pick(1, 2, 2)
	cs.Cfg["pol.tw"] = pick(16, 64, 400)
	cs.Cfg["pol.jump_us"] = pick(1000, 5000, 53000)
	cs.Cfg["mem"] = pick(200, 400, 1000, 4096, 1<<20)
	cs.Cfg["wal"] = pick(400, 1000, 4096, 1<<20)
	cs.Cfg["workers"] = pick(1, 2, 2, 3)
	cs.Cfg["standby"] = 0
	cs.Cfg["kgs"] = pick(1, 2, 3, 7, 8, 64, 128, 200, 256, 257)
	cs.Cfg["splits"] = int64(1 + r.IntN(5))
	cs.Cfg["records"] = int64(4 + r.IntN(28))
	if tier == "thorough" {
		cs.Cfg["records"] = int64(4 + r.IntN(60))
	}
	cs.Cfg["nkeys"] = int64(1 + r.IntN(6))
	cs.Cfg["bsize"] = pick(1, 2, 3, 5)
	cs.Cfg["bdelay_us"] = pick(0, 1000, 5000, 50000, 250000, 600000)
	cs.Cfg["hsleep_ms"] = pick(0, 0, 0, 100, 400) // operator back-pressure in simulated time
	if cs.Cfg["bsize"] > 1 && cs.Cfg["bdelay_us"] == 0 {
		// without a time-out a partial batch waits for ever once the source has
		// caught up: that is a configuration without progress, not a finding
		cs.Cfg["bdelay_us"] = 1000
	}
	cs.Cfg["hlat"] = pick(0, 1, 1, 2)
	cs.Cfg["readbatch"] = pick(1, 2, 3, 7)
	cs.Cfg["pace_ms"] = pick(2000, 5000, 15000)
	cs.Cfg["poll_ms"] = pick(100, 300, 1000, 3000)
	cs.Cfg["tsmode"] = pick(0, 1, 2) // ordered, shuffled, with duplicates/regressions
	cs.Cfg["tcache"] = pick(40, 200, 1<<30)
	cs.Cfg["dataseed"] = int64(r.Uint32())
	cs.Cfg["hb_s"] = pick(5, 5, 10)
	horizon := int64(240)
	switch prop {
	case "C01":
		nf := 1 + r.IntN(3)
		// most plans leave no survivor (see known finding "surviving worker redeployed in place")
		survivors := r.IntN(8) == 0
		for i := 0; i < nf; i++ {
			at := faultTime(r, horizon)
			switch x := r.IntN(10); {
			case x < 2 && cs.Cfg["workers"] == 1:
				cs.Ops = append(cs.Ops, simcore.Op{K: "kill-job", A: []int64{at, 1 + int64(r.IntN(20))}})
			case x < 2:
				cs.Ops = append(cs.Ops, killAllOp(r, &cs, horizon, 1)) // job and every worker
			case x == 2 && (survivors || cs.Cfg["workers"] == 1):
				cs.Ops = append(cs.Ops, simcore.Op{K: "stop-worker", A: []int64{at, int64(r.IntN(3)), 1 + int64(r.IntN(20))}})
			case survivors || cs.Cfg["workers"] == 1:
				cs.Ops = append(cs.Ops, simcore.Op{K: "kill-worker", A: []int64{at, int64(r.IntN(3)), 1 + int64(r.IntN(20))}})
			default:
				cs.Ops = append(cs.Ops, killAllOp(r, &cs, horizon, 0)) // every worker, the job survives
			}
		}
		if r.IntN(3) == 0 {
			cs.Cfg["standby"] = 1
		}
	case "C15":
		cs.Cfg["standby"] = pick(0, 0, 1, 2)
		nf := 1 + r.IntN(4)
		for i := 0; i < nf; i++ {
			at := faultTime(r, horizon)
			switch r.IntN(8) {
			case 0:
				cs.Ops = append(cs.Ops, simcore.Op{K: "kill-job", A: []int64{at, 1 + int64(r.IntN(20))}})
			case 1, 2:
				cs.Ops = append(cs.Ops, simcore.Op{K: "stop-worker", A: []int64{at, int64(r.IntN(3)), 1 + int64(r.IntN(20))}})
			case 3:
				if r.IntN(2) == 0 {
					// a short cut (below the heart-beat deadline) right at a checkpoint tick: the
					// StartCheckpoint call or an acknowledgement fails although nobody is declared dead
					n := 1 + int64(r.IntN(int(horizon/60)))
					cs.Ops = append(cs.Ops, simcore.Op{K: "partition", A: []int64{n*60000 - 300 + int64(r.IntN(1500)), int64(r.IntN(3)), 1 + int64(r.IntN(3))}})
				} else {
					cs.Ops = append(cs.Ops, simcore.Op{K: "partition", A: []int64{at, int64(r.IntN(3)), 5 + int64(r.IntN(20))}})
				}
			case 4:
				cs.Ops = append(cs.Ops, killAllOp(r, &cs, horizon, 0))
			default:
				cs.Ops = append(cs.Ops, simcore.Op{K: "kill-worker", A: []int64{at, int64(r.IntN(3)), 1 + int64(r.IntN(20))}})
			}
		}
	case "C04":
		// one run in four reads a Kinesis stream whose shards split, merge, finish and appear
		// while the job runs (failure-free: nothing is restored)
		if r.IntN(4) == 0 {
			cs.Cfg["kin"] = 1
			cs.Cfg["reshards"] = pick(0, 1, 2, 3, 5)
			cs.Cfg["kinpre"] = pick(0, 30, 60, 100)
			cs.Cfg["discover_s"] = pick(1, 2, 10)
			cs.Cfg["poll_ms"] = pick(100, 300) // short polls: a split assignment never holds the job's task queue for long
		}
	case "C16":
		cs.Cfg["kin"] = pick(0, 1, 1)
		cs.Cfg["reshards"] = pick(0, 1, 2, 3, 5, 8)
		if r.IntN(3) == 0 {
			// many small shards: finish notifications, hand-outs and discovery ticks crowd together
			cs.Cfg["records"] = int64(2 + r.IntN(6))
			cs.Cfg["reshards"] = pick(3, 5, 8)
			cs.Cfg["pace_ms"] = pick(500, 2000)
			cs.Cfg["poll_ms"] = pick(100, 300)
		}
		cs.Cfg["kinpre"] = pick(0, 30, 60, 100)
		cs.Cfg["discover_s"] = pick(1, 2, 10, 30)
		if r.IntN(2) == 0 {
			nf := 1 + r.IntN(2)
			for i := 0; i < nf; i++ {
				if r.IntN(4) == 0 {
					cs.Ops = append(cs.Ops, killAllOp(r, &cs, horizon, 1)) // job and every worker
				} else {
					cs.Ops = append(cs.Ops, killAllOp(r, &cs, horizon, 0))
				}
			}
		}
	case "C14":
		if r.IntN(2) == 0 {
			// a recovery before the savepoint: the operators' checkpoints then reference
			// files of an earlier deployment, in other directories than their own
			cs.Ops = append(cs.Ops, simcore.Op{K: "kill-all", A: []int64{61000 + int64(r.IntN(50000)), 0, 1 + int64(r.IntN(5)), int64(r.IntN(2))}})
			cs.Ops = append(cs.Ops, simcore.Op{K: "savepoint", A: []int64{125000 + int64(r.IntN(90000))}})
			cs.Cfg["records"] = cs.Cfg["records"] + 12
		} else {
			cs.Ops = append(cs.Ops, simcore.Op{K: "savepoint", A: []int64{faultTime(r, 150)}})
		}
		if r.IntN(3) == 0 {
			cs.Ops = append(cs.Ops, simcore.Op{K: "savepoint", A: []int64{faultTime(r, 200)}})
		}
		cs.Cfg["workers2"] = pick(1, 2, 3)
	}
	if cs.Cfg["kin"] == 1 && r.IntN(3) == 0 {
		for i, n := 0, 1+r.IntN(3); i < n; i++ {
			if r.IntN(2) == 0 {
				cs.Ops = append(cs.Ops, simcore.Op{K: "kin-expire", A: []int64{int64(r.IntN(int(horizon * 1000)))}})
			} else {
				cs.Ops = append(cs.Ops, simcore.Op{K: "kin-error", A: []int64{int64(r.IntN(int(horizon * 1000))), 200 + int64(r.IntN(20000))}})
			}
		}
	}
	if prop == "C01" || prop == "C15" || prop == "C16" {
		// slow publication of the job snapshot (1 write in N): the asynchronous publication of
		// a checkpoint is then still in flight when the next fault and redeployment happen.
		// Drawn last so that every other part of the case is what it was without this fault kind.
		cs.Cfg["stall_n"] = pick(0, 2, 4)
	}
	if prop == "C15" && r.IntN(3) == 0 {
		// overlapping failures: a second worker dies around the moment the job notices the
		// first death (heart-beat deadline), while the first one's replacement is still missing
		t0, hb := faultTime(r, horizon), cs.Cfg["hb_s"]
		cs.Ops = append(cs.Ops, simcore.Op{K: "kill-worker", A: []int64{t0, int64(r.IntN(3)), hb + 3 + int64(r.IntN(15)), 1}})
		cs.Ops = append(cs.Ops, simcore.Op{K: "kill-worker", A: []int64{t0 + hb*1000 - 1500 + int64(r.IntN(4000)), int64(r.IntN(3)), 1 + int64(r.IntN(20)), 1}})
	}
	sort.SliceStable(cs.Ops, func(i, j int) bool { return cs.Ops[i].A[0] < cs.Ops[j].A[0] })
	return cs
}

// killAllOp: every worker (and with it the job, if withJob) dies and is restarted after d
// seconds. One time in three the kill is placed so that the job forms the next assembly
// (after the heartbeats expired and the new workers registered) right at a checkpoint tick.
func killAllOp(r *mrand.Rand, cs *simcore.Case, horizonS int64, withJob int64) simcore.Op {
	d := 1 + int64(r.IntN(20))
	at := faultTime(r, horizonS)
	switch r.IntN(4) {
	case 0:
		n := 1 + int64(r.IntN(int(horizonS/60)))
		at = n*60000 - max(d, cs.Cfg["hb_s"])*1000 - int64(r.IntN(4000)) + 500
	case 1:
		// shortly after a checkpoint tick: the checkpoint that has just completed, or is
		// completing, is the one the recovery restores
		n := 1 + int64(r.IntN(int(horizonS/60)))
		at = n*60000 + 200 + int64(r.IntN(6000))
	}
	return simcore.Op{K: "kill-all", A: []int64{max(at, 0), 0, d, withJob}}
}

// faultTime: milliseconds of simulated time; biased to the windows around the
// job's one-minute checkpoint ticks and to the deploy phase.
func faultTime(r *mrand.Rand, horizonS int64) int64 {
	switch r.IntN(4) {
	case 0:
		return int64(r.IntN(3000)) // during registration / deploy
	case 1, 2:
		k := 1 + int64(r.IntN(int(horizonS/60)))
		return k*60000 + int64(r.IntN(4000)) - 500
	}
	return int64(r.IntN(int(horizonS * 1000)))
}

type detRand struct{ r *mrand.ChaCha8 }

func (d detRand) Read(p []byte) (int, error) { return d.r.Read(p) }

func bodyCluster(c *sim.Ctx) {
	prop := c.Prop
	slog.SetDefault(slog.New(slog.NewTextHandler(io.Discard, &slog.HandlerOptions{Level: slog.LevelError + 100})))
	var sd [32]byte
	binary.BigEndian.PutUint64(sd[:], uint64(c.Cfg("dataseed", 1)))
	ksuid.SetRand(detRand{mrand.NewChaCha8(sd)})
	disk := sim.NewDisk(c)
	if n := c.Cfg("stall_n", 0); n > 0 {
		disk.StallSuffix, disk.StallMax, disk.FaultRate["stall-write"] = ".snapshot", 30*time.Second, int(n)
	}
	installOpHooks(c, disk)
	w := &cluWorld{c: c, prop: prop, disk: disk, net: newSimNet(c), workers: map[string]*simWorker{}, published: map[uint64]*snapshotpb.JobCheckpoint{}, allPublished: map[uint64]*snapshotpb.JobCheckpoint{},
		streams: map[string][]streamItem{}, regs: map[string]map[string]bool{}, startCkpt: map[uint64]int{}, startedFor: map[uint64]map[string]bool{},
		kgs: int(c.Cfg("kgs", 8)), workerCount: int(c.Cfg("workers", 1))}
	// input
	dr := mrand.New(mrand.NewPCG(uint64(c.Cfg("dataseed", 1)), 21))
	S, R, nkeys := int(c.Cfg("splits", 1)), int(c.Cfg("records", 10)), int(c.Cfg("nkeys", 2))
	src := &simSource{w: w, batch: int(c.Cfg("readbatch", 2)), paceMS: c.Cfg("pace_ms", 2000), pollMS: c.Cfg("poll_ms", 500)}
	for s := 0; s < S; s++ {
		var recs []simRecord
		ts := int64(1000)
		for i := 0; i < R; i++ {
			switch c.Cfg("tsmode", 0) {
			case 0:
				ts += int64(1 + dr.IntN(5))
			case 1:
				ts = 1000 + int64(dr.IntN(R*5))
			case 2:
				ts += int64(dr.IntN(5)) - 1
			}
			recs = append(recs, simRecord{Split: s, Idx: i, Key: fmt.Sprintf("key%d", dr.IntN(nkeys)), TS: max(ts, 1)})
		}
		src.splits = append(src.splits, recs)
	}
	w.src = src
	if c.Cfg("kin", 0) == 1 {
		src.splits = nil
		k, err := newKinWorld(w, src)
		if err != nil {
			c.Violate(prop+"/harness-stream-setup", "%v", err)
			return
		}
		src.kin = k
		S = len(src.splits)
	}
	w.h = newCluModel(c, src)
	nProcFaults := 0
	for _, op := range c.Case.Ops {
		if processFault(op) {
			nProcFaults++
		}
	}
	w.h.faults = nProcFaults > 0 && (prop != "C14" || hasOp(c.Case.Ops, "kill-all"))

	disk.OnPublish = func(node, p string, data []byte) {
		if !strings.HasSuffix(p, ".snapshot") {
			return
		}
		var jc snapshotpb.JobCheckpoint
		if gproto.Unmarshal(data, &jc) != nil {
			return
		}
		w.mu.Lock()
		w.published[jc.Id] = &jc
		w.allPublished[jc.Id] = &jc
		w.newestPub = max(w.newestPub, jc.Id)
		w.mu.Unlock()
		if src.kin != nil {
			src.kin.onPublished(jc.Id)
		}
		c.Probe("job-checkpoint-published")
	}

	w.startJob("")
	total := w.workerCount + int(c.Cfg("standby", 0))
	for i := 0; i < total; i++ {
		w.startWorker()
	}

	// --- fault plan ---
	faultsDone := make(chan struct{})
	c.Go("chaos", func() {
		defer close(faultsDone)
		simrt.SetGroup("chaos")
		start := time.Now()
		for _, op := range c.Case.Ops {
			at := time.Duration(op.Arg(0)) * time.Millisecond
			if d := at - time.Since(start); d > 0 {
				simrt.Sleep("chaos-wait", d)
			}
			if c.Violated() {
				return
			}
			w.applyFault(op)
		}
		for { // the faults are over when every replacement has started
			w.mu.Lock()
			n := w.pendingRestarts
			w.mu.Unlock()
			if n == 0 || c.Violated() {
				break
			}
			simrt.Sleep("chaos-drain", time.Second)
		}
	})

	// --- wait for the end of the run ---
	simrt.SetGroup("driver")
	// bounded progress: 30 simulated minutes plus twice the time the paced source needs to
	// hand over the whole input in the slowest case (one split read per pace interval)
	deadline := 30 * time.Minute
	if rb := c.Cfg("readbatch", 2); rb > 0 {
		deadline += 2 * time.Duration(int64(w.h.total)/rb+1) * time.Duration(c.Cfg("pace_ms", 2000)) * time.Millisecond
	}
	startT := time.Now()
	finalID := uint64(0)
	lastGC := time.Duration(0)
	for {
		if c.Violated() {
			return
		}
		simrt.Sleep("driver-poll", 2*time.Second)
		el := time.Since(startT)
		if el-lastGC > 45*time.Second { // garbage collection as a scheduled event
			lastGC = el
			n := gcStep(disk)
			c.ProbeN("gc-deleted-files", n)
		}
		select {
		case <-faultsDone:
		default:
			if el < deadline {
				continue
			}
		}
		if prop == "C14" && !w.savepointPhase() && el < deadline {
			continue
		}
		all, distinct := w.h.seenAll()
		if all {
			if id, ok := w.finalCheckpoint(); ok {
				finalID = id
				break
			}
		}
		if el > deadline {
			c.Probe("incomplete")
			w.reportIncomplete(all, distinct)
			return
		}
	}
	c.SetState(fmt.Sprintf("w%d,s%d,f%d", w.workerCount, S, len(c.Case.Ops)))
	w.finalChecks(finalID)
}

// finalCheckpoint: a published job checkpoint whose source positions are the
// end of every split (so that its operator state must be the complete fold).
func (w *cluWorld) finalCheckpoint() (uint64, bool) {
	w.mu.Lock()
	defer w.mu.Unlock()
	jc := w.published[w.newestPub]
	if jc == nil || len(jc.SourceCheckpoints) != 1 {
		return 0, false
	}
	pos := map[string]int64{}
	for _, b := range jc.SourceCheckpoints[0].SplitStates {
		id, cur, ok := w.src.decodeState(b)
		if !ok {
			return 0, false
		}
		pos[id] = cur
	}
	for s, recs := range w.src.splits {
		p, held := pos[w.src.splitID(s)]
		if k := w.src.kin; k != nil && !held && k.closed[s] && k.finishedAhead(jc.Id, s) {
			continue // a closed shard that was read to its end ahead of the barrier is no longer held by any reader
		}
		if p != int64(len(recs)) {
			if os.Getenv("VERIF_DEBUG") != "" {
				fmt.Fprintf(os.Stderr, "NOTFINAL ckpt=%d split=%d held=%v pos=%d len=%d\n", jc.Id, s, held, p, len(recs))
			}
			return 0, false
		}
	}
	return jc.Id, true
}

func (w *cluWorld) reportIncomplete(all bool, distinct int) {
	c, prop := w.c, w.prop
	// bounded liveness (C15): with the faults over and enough workers up, the job
	// must have recovered: input is consumed and a checkpoint covering it exists
	if prop == "C15" || prop == "C04" || prop == "C05" || prop == "C11" || prop == "C16" || prop == "C14" {
		up := 0
		for _, wk := range w.workerList() {
			if w.net.alive(wk.host) {
				up++
			}
		}
		if up >= w.workerCount && w.net.alive("job") {
			c.Violate(prop+"/no-progress", "%s after the start (30 simulated minutes plus twice the slowest-case input time) and with the faults over, with %d workers and the job up, only %d of %d records were processed (all=%v) and the newest published checkpoint is %d", fmtDur(w.c.S.SimTime()), up, distinct, w.h.total, all, w.newestPub)
		}
	}
}

func (w *cluWorld) workerList() []*simWorker {
	w.mu.Lock()
	defer w.mu.Unlock()
	var out []*simWorker
	for _, wk := range w.workers {
		out = append(out, wk)
	}
	sort.Slice(out, func(i, j int) bool { return out[i].host < out[j].host })
	return out
}

// --- processes ---

func (w *cluWorld) startJob(savepointURI string) {
	c := w.c
	w.mu.Lock()
	w.jobInc++
	inc := w.jobInc
	w.job = nil
	w.mu.Unlock()
	group := fmt.Sprintf("job%d", inc)
	w.net.setNode("job", group)
	c.Go(group, func() {
		simrt.SetGroup(group)
		cfg := &config.Config{WorkerCount: w.workerCount, KeyGroupCount: w.kgs, WorkingStorageLocation: "/store", Sources: []connectors.SourceConfig{w.src}}
		errCh := make(chan error, 100)
		job, err := jobs.New(&jobs.NewParams{
			JobConfig: cfg, Clock: clocks.NewSystemClock(), HeartbeatDeadline: time.Duration(c.Cfg("hb_s", 5)) * time.Second,
			Store: w.disk.Loc(group, "/job"), SavepointURI: savepointURI,
			OperatorFactory: func(senderID string, node *jobpb.NodeIdentity) proto.Operator {
				return &cluOpClient{w: w, from: "job", sender: senderID, node: node}
			},
			SourceRunnerFactory: func(node *jobpb.NodeIdentity) proto.SourceRunner { return &cluSRClient{w: w, node: node} },
			ErrChan:             errCh, Logger: slog.Default(),
		})
		if err != nil {
			c.Violate(w.prop+"/job-start-failed", "jobs.New: %v", err)
			return
		}
		w.mu.Lock()
		w.job = job
		w.mu.Unlock()
		for e := range errCh {
			simrt.Yield("job-error")
			c.Probe("job-error")
			simrt.Log("job error: " + e.Error())
		}
	})
}

func (w *cluWorld) startWorker() *simWorker {
	c := w.c
	w.mu.Lock()
	w.nWorker++
	host := fmt.Sprintf("w%d", w.nWorker)
	w.mu.Unlock()
	wk := &simWorker{host: host, group: host, opID: "op-" + host}
	w.net.setNode(host, host)
	ctx, cancel := context.WithCancel(context.Background())
	wk.cancel = cancel
	ready := make(chan struct{})
	c.Go("worker-"+host, func() {
		simrt.SetGroup(host)
		h := &cluHandler{m: w.h, host: host, op: func() string { return wk.opID }, sr: func() string { return wk.srID }}
		bp := batching.EventBatcherParams{MaxSize: int(c.Cfg("bsize", 1)), MaxDelay: time.Duration(c.Cfg("bdelay_us", 0)) * time.Microsecond}
		opf := func(senderID string, node *jobpb.NodeIdentity) proto.Operator {
			return &cluOpClient{w: w, from: host, sender: senderID, node: node}
		}
		wk.sr = sourcerunner.New(sourcerunner.NewParams{
			Host: host, UserHandler: h, Job: jobClient{w: w, from: host}, Clock: clocks.NewSystemClock(), OperatorFactory: opf, EventBatching: bp,
			SourceReaderFactory: func(*jobconfigpb.Source) connectors.SourceReader {
				if w.src.kin != nil {
					return w.src.kin.newReader(host, func() string { return wk.srID })
				}
				return w.src.NewSourceReader(connectors.SourceReaderHooks{NotifySplitsFinished: func([]string) {}})
			},
		})
		wk.srID = wk.sr.ID
		wk.op = operator.NewOperator(operator.NewOperatorParams{
			ID: wk.opID, Host: host, Job: jobClient{w: w, from: host}, UserHandler: h, Clock: clocks.NewSystemClock(), EventBatching: bp, NeighborOperatorFactory: opf,
		})
		w.mu.Lock()
		w.workers[host] = wk
		w.mu.Unlock()
		close(ready)
		// workers.Worker.Start: both parts under one errgroup context
		done := make(chan string, 2)
		c.Go("worker-"+host+"-sr", func() {
			simrt.SetGroup(host)
			if err := wk.sr.Start(ctx); err != nil {
				simrt.Log("source runner " + host + " stopped: " + err.Error())
			}
			cancel()
			done <- "sr"
		})
		c.Go("worker-"+host+"-op", func() {
			simrt.SetGroup(host)
			if err := wk.op.Start(ctx); err != nil {
				simrt.Log("operator " + host + " stopped: " + err.Error())
			}
			cancel()
			done <- "op"
		})
		<-done
		simrt.Yield("worker-part-exited")
		<-done
		simrt.Yield("worker-exited")
		w.net.kill(host) // the process is gone
		c.Probe("worker-exited")
	})
	<-ready
	simrt.Yield("worker-started")
	return wk
}

func (w *cluWorld) nthWorker(n int64) *simWorker {
	var alive []*simWorker
	for _, wk := range w.workerList() {
		if w.net.alive(wk.host) {
			alive = append(alive, wk)
		}
	}
	if len(alive) == 0 {
		return nil
	}
	return alive[int(n)%len(alive)]
}

func (w *cluWorld) applyFault(op simcore.Op) {
	c := w.c
	switch op.K {
	case "kill-worker": // the process dies: no deregistration, heartbeats just stop
		wk := w.nthWorker(op.Arg(1))
		if wk == nil {
			return
		}
		c.S.KillGroup(wk.group)
		w.disk.Kill("op-" + wk.opID)
		w.net.kill(wk.host)
		c.Fault("worker-killed")
		if op.Arg(3) == 1 {
			// overlapping failures: the replacement starts beside the fault plan, so the next
			// fault can strike while this worker is still missing (job paused, waiting for resources)
			c.Fault("worker-killed-overlapping")
			w.mu.Lock()
			w.pendingRestarts++
			w.mu.Unlock()
			c.Go("restart", func() {
				simrt.SetGroup("chaos")
				simrt.Sleep("restart-delay", time.Duration(op.Arg(2))*time.Second)
				w.startWorker()
				w.mu.Lock()
				w.pendingRestarts--
				w.mu.Unlock()
			})
			return
		}
		simrt.Sleep("restart-delay", time.Duration(op.Arg(2))*time.Second)
		w.startWorker()
	case "stop-worker": // graceful: the worker deregisters
		wk := w.nthWorker(op.Arg(1))
		if wk == nil {
			return
		}
		wk.cancel()
		c.Fault("worker-stopped")
		simrt.Sleep("restart-delay", time.Duration(op.Arg(2))*time.Second)
		w.startWorker()
	case "kill-all": // every worker dies at once (and the job too if Arg(3) == 1)
		for _, wk := range w.workerList() {
			if w.net.alive(wk.host) {
				c.S.KillGroup(wk.group)
				w.disk.Kill("op-" + wk.opID)
				w.net.kill(wk.host)
			}
		}
		c.Fault("all-workers-killed")
		c.Fault("worker-killed")
		if op.Arg(3) == 1 {
			w.mu.Lock()
			group := fmt.Sprintf("job%d", w.jobInc)
			w.mu.Unlock()
			c.S.KillGroup(group)
			w.disk.Kill(group)
			w.net.kill("job")
			c.Fault("job-killed")
		}
		simrt.Sleep("restart-delay", time.Duration(op.Arg(2))*time.Second)
		if op.Arg(3) == 1 {
			w.startJob("")
		}
		for i := 0; i < w.workerCount+int(c.Cfg("standby", 0)); i++ {
			w.startWorker()
		}
	case "kill-job":
		w.mu.Lock()
		group := fmt.Sprintf("job%d", w.jobInc)
		w.mu.Unlock()
		c.S.KillGroup(group)
		w.disk.Kill(group)
		w.net.kill("job")
		c.Fault("job-killed")
		simrt.Sleep("restart-delay", time.Duration(op.Arg(1))*time.Second)
		w.startJob("")
	case "partition":
		wk := w.nthWorker(op.Arg(1))
		if wk == nil {
			return
		}
		w.net.mu.Lock()
		w.net.part[[2]string{"job", wk.host}] = true
		w.net.mu.Unlock()
		c.Fault("partition")
		simrt.Sleep("partition", time.Duration(op.Arg(2))*time.Second)
		w.net.mu.Lock()
		delete(w.net.part, [2]string{"job", wk.host})
		w.net.mu.Unlock()
	case "savepoint":
		w.requestSavepoint()
	case "kin-expire": // every shard iterator handed out so far expires (a reader that paused for five minutes)
		if k := w.src.kin; k != nil {
			k.fake.ExpireShardIterators()
			c.Fault("kinesis-iterators-expired")
		}
	case "kin-error": // GetRecords is throttled for a while
		if k := w.src.kin; k != nil {
			msg := "rate exceeded"
			k.fake.SetGetRecordsError(&kinesistypes.ProvisionedThroughputExceededException{Message: &msg})
			c.Fault("kinesis-getrecords-throttled")
			simrt.Sleep("throttle", time.Duration(op.Arg(1))*time.Millisecond)
			k.fake.SetGetRecordsError(nil)
		}
	}
}

// processFault: the op kills, stops, restarts or cuts off a process (service faults of the
// source do not: the run still has to be exactly a failure-free one)
func processFault(op simcore.Op) bool { return !strings.HasPrefix(op.K, "kin-") }

// requestSavepoint is what `reduction savepoint` does through the job server.
func (w *cluWorld) requestSavepoint() {
	c, prop := w.c, w.prop
	var id uint64
	var err error
	w.mu.Lock()
	pendingBefore := w.inFlight()
	w.mu.Unlock()
	rerr := w.net.rpc("cli", "job", "CreateSavepoint", func() error {
		w.mu.Lock()
		job := w.job
		w.mu.Unlock()
		if job == nil {
			return errTransport
		}
		id, err = job.HandleCreateSavepoint(context.Background())
		return nil
	})
	if rerr != nil || err != nil {
		c.Probe("savepoint-refused") // e.g. job not running yet, or a savepoint already in progress
		simrt.Logf("savepoint request: %v %v", rerr, err)
		return
	}
	c.Probe("savepoint-requested")
	if pendingBefore != 0 {
		if id != pendingBefore {
			c.Violate(prop+"/savepoint-second-checkpoint", "a savepoint requested while checkpoint %d was in progress got id %d instead of folding into it", pendingBefore, id)
		}
		c.Probe("savepoint-folded-into-pending")
	}
	w.mu.Lock()
	w.savepoints = append(w.savepoints, id)
	w.mu.Unlock()
}

// inFlight: id of a checkpoint that was started and neither published nor abandoned (0 = none). Caller holds w.mu.
func (w *cluWorld) inFlight() uint64 {
	// members of the current assembly = the runner list of the latest operator deployment
	cur := map[string]bool{}
	for i := len(w.deploys) - 1; i >= 0; i-- {
		if w.deploys[i].kind == "op" {
			for _, sr := range w.deploys[i].srs {
				cur[sr] = true
			}
			break
		}
	}
	var ids []uint64
	for id := range w.startCkpt {
		if w.published[id] != nil || id <= w.abandonedUpTo {
			continue
		}
		for sr := range w.startedFor[id] {
			if cur[sr] { // a late StartCheckpoint to a member of an abandoned assembly does not count
				ids = append(ids, id)
				break
			}
		}
	}
	sort.Slice(ids, func(i, j int) bool { return ids[i] < ids[j] })
	if len(ids) == 0 {
		return 0
	}
	return ids[len(ids)-1]
}

// savepointPhase (C14): once the artifact of the first savepoint exists, everything is
// killed, all working storage is deleted, and a new job is started from the savepoint URI
// with the same or another worker count.
func (w *cluWorld) savepointPhase() (done bool) {
	c, prop := w.c, w.prop
	w.mu.Lock()
	sps := append([]uint64(nil), w.savepoints...)
	job := w.job
	restored := w.restoredFromSavepoint
	w.mu.Unlock()
	if restored || len(sps) == 0 || job == nil {
		return restored
	}
	uri, err := job.HandleGetSavepointURI(context.Background(), sps[0])
	if err != nil {
		return false // not written yet
	}
	if !w.disk.Exists(uri) {
		c.Violate(prop+"/savepoint-uri-missing", "savepoint %d URI %s does not exist", sps[0], uri)
		return false
	}
	c.Probe("savepoint-artifact-written")
	// the running job keeps going for a while (a later checkpoint / retention update may
	// run concurrently with the artifact copy), then everything dies
	simrt.Sleep("after-savepoint", time.Duration(c.Cfg("sp_linger_s", 5))*time.Second)
	for _, wk := range w.workerList() {
		if w.net.alive(wk.host) {
			c.S.KillGroup(wk.group)
			w.disk.Kill("op-" + wk.opID)
			w.net.kill(wk.host)
		}
	}
	w.mu.Lock()
	group := fmt.Sprintf("job%d", w.jobInc)
	w.abandonedUpTo = 1 << 62
	w.mu.Unlock()
	c.S.KillGroup(group)
	w.disk.Kill(group)
	w.net.kill("job")
	c.Fault("everything-killed")
	// all working storage is gone; only the savepoint directory survives
	w.disk.RemoveWhere(func(p string) bool { return !strings.HasPrefix(p, "/job/savepoints/") }, "harness:wipe-working-storage")
	w.mu.Lock()
	w.workerCount = int(c.Cfg("workers2", int64(w.workerCount)))
	w.restoredFromSavepoint = true
	w.savepointID = sps[0]
	w.published = map[uint64]*snapshotpb.JobCheckpoint{} // the final checkpoint must come from the restored job
	w.newestPub = 0
	w.abandonedUpTo = 0
	for id := range w.startCkpt {
		w.abandonedUpTo = max(w.abandonedUpTo, id)
	}
	w.mu.Unlock()
	w.startJob(uri)
	for i := 0; i < w.workerCount; i++ {
		w.startWorker()
	}
	c.Probe("restored-from-savepoint")
	return true
}

// --- final checks ---

func (w *cluWorld) finalChecks(finalID uint64) {
	c, prop := w.c, w.prop
	w.mu.Lock()
	jc := w.published[finalID]
	w.mu.Unlock()
	simrt.SetGroup("verifier")
	// C01: the final keyed state equals the fold of the complete input
	want := w.h.expectedFinal()
	got := map[string]nsState{}
	for _, oc := range jc.OperatorCheckpoints {
		var db *dkv.DB
		var err error
		func() {
			defer func() {
				if p := recover(); p != nil {
					err = fmt.Errorf("panic: %v", p)
				}
			}()
			db = dkv.Open(dkv.DBOptions{FileSystem: w.disk.FS("verifier", "/verify/"+oc.OperatorId), DataOwnership: &sharedOwnership{}, MemTableSize: 1 << 30, MaxWALSize: 1 << 30},
				[]recovery.CheckpointHandle{{CheckpointID: oc.CheckpointId, URI: oc.DkvFileUri}})
		}()
		if err != nil {
			c.Violate(prop+"/final-checkpoint-unreadable", "operator %s checkpoint %d (%s): %v", oc.OperatorId, oc.CheckpointId, oc.DkvFileUri, err)
			return
		}
		entries, _, err := readAll(db, nil)
		if err != nil {
			c.Violate(prop+"/final-checkpoint-unreadable", "operator %s checkpoint %d: %v", oc.OperatorId, oc.CheckpointId, err)
			return
		}
		p, err := decodePersisted(entries)
		if err != nil {
			c.Violate(prop+"/final-foreign-key", "operator %s: %v", oc.OperatorId, err)
			return
		}
		for _, subject := range sortedKeysAny(p.groups) {
			g := p.groups[subject]
			if wantG := refKeyGroup([]byte(subject), w.kgs); g != wantG {
				c.Violate(prop+"/stored-under-wrong-group", "operator %s persisted key %q under key group %d, MurmurHash3-32(key, 0) mod %d is %d", oc.OperatorId, subject, g, w.kgs, wantG)
				return
			}
			if int32(g) < oc.KeyGroupRange.Start || int32(g) >= oc.KeyGroupRange.End {
				continue // carried in a shared table of a previous assembly; not this operator's state
			}
			if _, dup := got[subject]; dup {
				c.Violate(prop+"/key-owned-twice", "key %q is in the owned range of two operators' checkpoints", subject)
				return
			}
			got[subject] = p.state[subject]
		}
	}
	keys := map[string]bool{}
	for k := range want {
		keys[k] = true
	}
	for k := range got {
		keys[k] = true
	}
	var ks []string
	for k := range keys {
		ks = append(ks, k)
	}
	sort.Strings(ks)
	for _, k := range ks {
		if gs, ws := stateString(got[k]), stateString(want[k]); gs != ws {
			c.Violate(prop+"/final-state", "key %q: final checkpointed state %s, a failure-free run over the same input gives %s", k, gs, ws)
			return
		}
	}
	c.Probe("final-state-verified")
	w.checkRanges(jc)
	if prop == "C05" {
		w.checkRouterConfigurations()
	}
	w.checkStreams()
	w.checkAssignments()
	w.checkDeploys()
}

// C05: reported ranges are contiguous, disjoint, covering, sizes differ <= 1
func (w *cluWorld) checkRanges(jc *snapshotpb.JobCheckpoint) {
	c, prop := w.c, w.prop
	type rg struct{ lo, hi int32 }
	var rs []rg
	for _, oc := range jc.OperatorCheckpoints {
		rs = append(rs, rg{oc.KeyGroupRange.Start, oc.KeyGroupRange.End})
	}
	sort.Slice(rs, func(i, j int) bool { return rs[i].lo < rs[j].lo })
	next := int32(0)
	minSz, maxSz := int32(1<<30), int32(0)
	for _, r := range rs {
		if r.lo != next {
			c.Violate(prop+"/ranges-not-contiguous", "operator key group ranges %v of checkpoint %d over %d groups", rs, jc.Id, w.kgs)
			return
		}
		next = r.hi
		minSz, maxSz = min(minSz, r.hi-r.lo), max(maxSz, r.hi-r.lo)
	}
	if next != int32(w.kgs) || maxSz-minSz > 1 || len(rs) != w.workerCount {
		c.Violate(prop+"/ranges-invalid", "operator key group ranges %v of checkpoint %d: must cover [0,%d) with %d ranges whose sizes differ by at most one", rs, jc.Id, w.kgs, w.workerCount)
	}
}

// C04 / C11(a) / C16(a): per (source runner -> operator) stream
func (w *cluWorld) checkStreams() {
	c, prop := w.c, w.prop
	w.mu.Lock()
	defer w.mu.Unlock()
	// cursor each runner reported for each checkpoint
	cursors := map[string]map[uint64]map[string]int64{}
	for _, a := range w.srAcks {
		if cursors[a.srID] == nil {
			cursors[a.srID] = map[uint64]map[string]int64{}
		}
		cursors[a.srID][a.ckpt] = a.cursor
	}
	var keys []string
	for k := range w.streams {
		keys = append(keys, k)
	}
	sort.Strings(keys)
	for _, k := range keys {
		srID := k[:strings.Index(k, ">")]
		items := w.streams[k]
		if os.Getenv("VERIF_DEBUG") != "" {
			for i, it := range items {
				fmt.Fprintf(os.Stderr, "STREAM %s %d %s rec=%s ts=%d wm=%s ckpt=%d at=%s\n", k[len(k)-8:], i, it.kind, it.rec, it.ts.Unix(), it.wm.UTC().Format("15:04:05.000000000"), it.ckpt, fmtDur(it.at))
			}
		}
		var lastWM, maxTS time.Time
		haveWM, haveTS := false, false
		wmsSinceRec := 0
		for pos, it := range items {
			switch it.kind {
			case "rec":
				wmsSinceRec = 0
				if !haveTS || it.ts.After(maxTS) {
					maxTS, haveTS = it.ts, true
				}
			case "wm":
				if haveWM && it.wm.Before(lastWM) {
					c.Violate(prop+"/watermark-decreased", "stream %s: watermark %s after %s", k, it.wm.UTC().Format(time.RFC3339Nano), lastWM.UTC().Format(time.RFC3339Nano))
					return
				}
				// the runner-wide largest keyed timestamp is kept by the handler wrapper
				if lt, ok := w.h.lastTS[srID]; ok && !it.wm.Before(time.Unix(0, lt)) {
					c.Violate(prop+"/watermark-reached-timestamp", "stream %s: watermark %s reaches the largest event timestamp %s the runner has keyed", k, it.wm.UTC().Format(time.RFC3339Nano), time.Unix(0, lt).UTC().Format(time.RFC3339Nano))
					return
				}
				lastWM, haveWM = it.wm, true
				// a runner with a single operator forwards everything on this one stream, in
				// forwarding order: its watermark is then exactly one nanosecond below the
				// largest timestamp of the records ahead of it (Go's zero time before any)
				if w.singleStream(srID) {
					want := time.Time{}.Add(-time.Nanosecond)
					if haveTS {
						want = maxTS.Add(-time.Nanosecond)
					}
					if !it.wm.Equal(want) {
						c.Violate(prop+"/watermark-value", "stream %s position %d: watermark %s, the largest timestamp forwarded ahead of it gives %s", k, pos, it.wm.UTC().Format(time.RFC3339Nano), want.UTC().Format(time.RFC3339Nano))
						return
					}
				}
				// "follows closely" as bounded liveness: a watermark delivered more than 30
				// simulated seconds after the runner's last record was delivered (on any
				// stream) is exactly one nanosecond below the largest timestamp it keyed
				if lt, ok := w.h.lastTS[srID]; ok && !w.h.faults && !it.wm.Equal(time.Unix(0, lt-1)) {
					if last, all := w.lastRecordDelivery(srID); all && it.at > last+30*time.Second {
						c.Violate(prop+"/watermark-lags", "stream %s: watermark %s delivered at %s, %s after the runner's last record; the largest timestamp it keyed is %s", k, it.wm.UTC().Format(time.RFC3339Nano), fmtDur(it.at), fmtDur(it.at-last), time.Unix(0, lt).UTC().Format(time.RFC3339Nano))
						return
					}
				}
				wmsSinceRec++
			case "bar":
				cur := cursors[srID][it.ckpt]
				if cur == nil {
					continue
				}
				// no record at or beyond the reported position before the barrier,
				// none below it after the barrier
				for p2, it2 := range items {
					if it2.kind != "rec" {
						continue
					}
					var s, i int
					fmt.Sscanf(it2.rec, "%d:%d", &s, &i)
					pcur, ok := cur[w.src.splitID(s)]
					if !ok {
						continue
					}
					if p2 < pos && int64(i) >= pcur && !w.h.faults {
						c.Violate(prop+"/record-beyond-position-before-barrier", "stream %s: record %s was delivered ahead of barrier %d although the runner reported position %d for split %d", k, it2.rec, it.ckpt, pcur, s)
						return
					}
					if p2 > pos && int64(i) < pcur && !w.h.faults {
						c.Violate(prop+"/record-below-position-after-barrier", "stream %s: record %s was delivered after barrier %d although the runner reported position %d for split %d", k, it2.rec, it.ckpt, pcur, s)
						return
					}
				}
			}
		}
	}
}

// C16(b): every split is assigned to exactly one runner of the assembly the
// splitter was created for, the runner is told exactly that, and after a
// recovery the position handed out is the one in the checkpoint the job
// restored from (decoded independently from the published snapshot).
func (w *cluWorld) checkAssignments() {
	c, prop := w.c, w.prop
	w.mu.Lock()
	defer w.mu.Unlock()
	if w.src.kin != nil {
		return // hand-outs of the Kinesis splitter are checked as they happen (kinWorld.onAssign)
	}
	w.src.mu.Lock()
	defer w.src.mu.Unlock()
	var rounds []int
	for r := range w.src.roundAssign {
		rounds = append(rounds, r)
	}
	sort.Ints(rounds)
	for _, r := range rounds {
		owners := map[string][]string{}
		for sr, m := range w.src.roundAssign[r] {
			for sp := range m {
				owners[sp] = append(owners[sp], sr)
			}
		}
		for s := range w.src.splits {
			if n := len(owners[fmt.Sprint(s)]); n != 1 {
				c.Violate(prop+"/split-owners", "assignment round %d: split %d has %d readers %v", r, s, n, owners[fmt.Sprint(s)])
				return
			}
		}
		if id, ok := w.src.roundCkpt[r]; ok {
			want := w.src.roundWant[r]
			if want == nil {
				c.Violate(prop+"/restored-unpublished-checkpoint", "assignment round %d restored source positions of checkpoint %d which had not been published", r, id)
				return
			}
			for _, sr := range sortedKeysAny(w.src.roundAssign[r]) {
				m := w.src.roundAssign[r][sr]
				for _, sp := range sortedKeysAny(m) {
					cur := m[sp]
					if cur != want[sp] {
						c.Violate(prop+"/restored-position", "assignment round %d (restore of checkpoint %d): split %s resumes at %d, the checkpoint says %d", r, id, sp, cur, want[sp])
						return
					}
				}
			}
			c.Probe("positions-restored-from-checkpoint")
		}
	}
	for _, a := range w.assigns {
		if a.round == 0 {
			continue
		}
		want := w.src.roundAssign[a.round][a.srID]
		if fmt.Sprint(want) != fmt.Sprint(a.splits) {
			c.Violate(prop+"/assignment-delivered", "runner %s was sent %v in round %d, the splitter assigned it %v", a.srID, a.splits, a.round, want)
			return
		}
	}
}

// C15 (safety part): every deploy round targets exactly WorkerCount operators and runners,
// every member gets the same member list
func (w *cluWorld) checkDeploys() {
	c, prop := w.c, w.prop
	w.mu.Lock()
	defer w.mu.Unlock()
	for _, d := range w.deploys {
		if len(d.ops) != d.want {
			c.Violate(prop+"/deploy-wrong-size", "%s %s was deployed with %d operators %v, WorkerCount is %d", d.kind, d.target, len(d.ops), d.ops, d.want)
			return
		}
		if d.kind == "op" && len(d.srs) != d.want {
			c.Violate(prop+"/deploy-wrong-size", "operator %s was deployed with %d source runners %v, WorkerCount is %d", d.target, len(d.srs), d.srs, d.want)
			return
		}
		if d.kind == "op" && !contains(d.ops, d.target) {
			c.Violate(prop+"/deploy-foreign-member", "operator %s was deployed with an operator list %v that does not contain it", d.target, d.ops)
			return
		}
		regs := w.regs[fmt.Sprintf("job%d", d.jobInc)]
		for _, id := range append(append([]string{}, d.ops...), d.srs...) {
			if _, ever := regs[id]; !ever {
				c.Violate(prop+"/deploy-unregistered-member", "job incarnation %d deployed %s with member %s which never registered with it", d.jobInc, d.target, id)
				return
			}
		}
	}
}

func jsonUnmarshal(b []byte, v any) error { return json.Unmarshal(b, v) }

var _ = storage.ErrNotFound

// recsDone: no record follows position pos on the stream.
func recsDone(items []streamItem, pos int) bool {
	for _, it := range items[pos+1:] {
		if it.kind == "rec" {
			return false
		}
	}
	return true
}

// lastRecordDelivery: simulated time at which the runner's last record was delivered,
// and whether every record of the splits it was assigned has been delivered.
func (w *cluWorld) lastRecordDelivery(srID string) (time.Duration, bool) {
	n := 0
	var last time.Duration
	for k, items := range w.streams {
		if !strings.HasPrefix(k, srID+">") {
			continue
		}
		for _, it := range items {
			if it.kind == "rec" {
				n++
				last = max(last, it.at)
			}
		}
	}
	want := 0
	for _, a := range w.assigns {
		if a.srID == srID {
			for sp := range a.splits {
				if idx, ok := w.src.splitIndex(sp); ok {
					want += len(w.src.splits[idx])
				}
			}
		}
	}
	return last, n >= want && want > 0
}

// checkRouterConfigurations (C05 only): the cluster harness can instantiate 1-3
// operators; the property quantifies over every operator count, including
// counts that do not divide or that exceed the key-group count. For a seeded
// sample of such configurations the router every source runner uses
// (partitioning.KeySpace.RangeIndex / KeyGroup / KeyGroupRanges - real code) is
// evaluated directly against the independent hash and the range properties.
// This part is direct evaluation of a pure function, not simulation, and is
// reported as such in the evidence (probe "router-configurations-evaluated").
func (w *cluWorld) checkRouterConfigurations() {
	c, prop := w.c, w.prop
	r := mrand.New(mrand.NewPCG(uint64(c.Cfg("dataseed", 1)), 77))
	groupsSwarm := []int{1, 2, 3, 5, 7, 8, 64, 127, 128, 129, 255, 256, 257, 1000, 4096, 65535}
	var keys [][]byte
	for _, recs := range w.src.splits {
		for _, rec := range recs {
			keys = append(keys, []byte(rec.Key))
		}
	}
	for i := 0; i < 200; i++ {
		k := make([]byte, r.IntN(41))
		for j := range k {
			k[j] = byte(r.IntN(256))
		}
		keys = append(keys, k)
	}
	for cfg := 0; cfg < 12; cfg++ {
		g := groupsSwarm[r.IntN(len(groupsSwarm))]
		n := []int{1, 2, 3, 4, 5, 7, 8, 255, 256, 257, 300, 1000, g, g + 1, 1 + r.IntN(g)}[r.IntN(15)]
		var ks *partitioning.KeySpace
		func() {
			defer func() {
				if p := recover(); p != nil {
					c.Violate(prop+"/keyspace-panic", "NewKeySpace(%d groups, %d operators): %v", g, n, p)
				}
			}()
			ks = partitioning.NewKeySpace(g, n)
		}()
		if ks == nil {
			return
		}
		ranges := ks.KeyGroupRanges()
		next, minSz, maxSz := 0, 1<<30, 0
		for _, rg := range ranges {
			if rg.Start != next || rg.End < rg.Start {
				c.Violate(prop+"/ranges-not-contiguous", "%d groups over %d operators: ranges %v", g, n, ranges)
				return
			}
			next = rg.End
			minSz, maxSz = min(minSz, rg.End-rg.Start), max(maxSz, rg.End-rg.Start)
		}
		if next != g || len(ranges) != n || maxSz-minSz > 1 {
			c.Violate(prop+"/ranges-invalid", "%d groups over %d operators: ranges must cover [0,%d) with sizes differing by at most one, got %d ranges ending at %d (sizes %d..%d)", g, n, g, len(ranges), next, minSz, maxSz)
			return
		}
		for _, k := range keys {
			want := refKeyGroup(k, g)
			if got := int(ks.KeyGroup(k)); got != want {
				c.Violate(prop+"/key-group-function", "key %q over %d groups: engine says group %d, MurmurHash3-32(key, seed 0) mod %d is %d", k, g, got, g, want)
				return
			}
			idx := ks.RangeIndex(k)
			if idx < 0 || idx >= len(ranges) || want < ranges[idx].Start || want >= ranges[idx].End {
				c.Violate(prop+"/routed-to-non-owner", "%d groups over %d operators: key %q (group %d) is routed to operator index %d whose range does not contain the group", g, n, k, want, idx)
				return
			}
		}
		c.Probe("router-configurations-evaluated")
	}
}

func hasOp(ops []simcore.Op, k string) bool {
	for _, o := range ops {
		if o.K == k {
			return true
		}
	}
	return false
}

// singleStream: the runner was deployed once, with a single operator, so everything
// it forwards travels on one stream.
func (w *cluWorld) singleStream(srID string) bool {
	n := 0
	for _, d := range w.deploys {
		if d.kind == "sr" && d.target == srID {
			if len(d.ops) != 1 {
				return false
			}
			n++
		}
	}
	return n == 1
}
