package h

import (
	"bytes"
	"context"
	"encoding/binary"
	"encoding/json"
	"fmt"
	"sort"
	"strings"
	"sync"
	"time"

	"google.golang.org/protobuf/types/known/timestamppb"
	"reduction.dev/reduction-protocol/handlerpb"
	simrt "reduction.dev/reduction/verifsimrt"
	"verif/sim"
)

// ---------------------------------------------------------------------------
// independent MurmurHash3 x86_32 (Austin Appleby's reference algorithm), used to
// check that what the engine persists for a key is addressed by the fixed pure
// function the property names - not the repository's own implementation.

func refMurmur3(data []byte, seed uint32) uint32 {
	const c1, c2 = 0xcc9e2d51, 0x1b873593
	h := seed
	n := len(data)
	for i := 0; i+4 <= n; i += 4 {
		k := binary.LittleEndian.Uint32(data[i:])
		k *= c1
		k = k<<15 | k>>17
		k *= c2
		h ^= k
		h = h<<13 | h>>19
		h = h*5 + 0xe6546b64
	}
	var k uint32
	tail := data[n&^3:]
	switch len(tail) {
	case 3:
		k ^= uint32(tail[2]) << 16
		fallthrough
	case 2:
		k ^= uint32(tail[1]) << 8
		fallthrough
	case 1:
		k ^= uint32(tail[0])
		k *= c1
		k = k<<15 | k>>17
		k *= c2
		h ^= k
	}
	h ^= uint32(n)
	h ^= h >> 16
	h *= 0x85ebca6b
	h ^= h >> 13
	h *= 0xc2b2ae35
	h ^= h >> 16
	return h
}

func refKeyGroup(key []byte, groups int) int { return int(refMurmur3(key, 0) % uint32(groups)) }

// ---------------------------------------------------------------------------
// event scripts carried in KeyedEvent.Value

type mutScript struct {
	NS  string `json:"ns"`
	K   []byte `json:"k"`
	V   []byte `json:"v,omitempty"`
	Del bool   `json:"del,omitempty"`
}

type evScript struct {
	ID     string      `json:"id"`
	S      int         `json:"s"` // sender
	I      int         `json:"i"` // position in the sender's stream
	Muts   []mutScript `json:"m,omitempty"`
	Timers []int64     `json:"t,omitempty"` // seconds
	Sink   int         `json:"sink,omitempty"`
}

// ---------------------------------------------------------------------------
// reference model shared by all operators' handler wrappers ("the user's code")

type nsState map[string]map[string]string // namespace -> entry key -> value

type opView struct {
	told      []int64 // last watermark told (seconds), -1 = none yet
	wmInvoked map[int]int64
	wmDone    map[int]int64
	lastFired int64
	// C02, watermarks as part of the cut: barriers this operator has been sent (invoked),
	// per checkpoint id; checkpoints up to base were restored, not taken here
	barInvoked map[uint64]int
	base       uint64
}

type refModel struct {
	c    *sim.Ctx
	prop string
	mu   sync.Mutex // real mutex; never held across a yield

	shadow      map[string]nsState      // subject key -> state the next invocation must be given
	pending     map[timerKey]bool       // timers accepted and not yet fired
	processed   map[string]int          // event id -> number of times the handler saw it
	order       map[string][]string     // subject key -> event ids in the order seen
	views       map[string]*opView      // per operator id
	owner       func(key []byte) string // current owner (operator id) of a key, nil = do not check
	senders     int
	cutWM       map[uint64][]int64 // checkpoint id -> per sender: its last watermark ahead of that barrier (0 = none)
	bases       map[string]uint64  // operator id -> checkpoint it was last deployed from
	sink        []string
	invocations int
	latency     int
}

func newRefModel(c *sim.Ctx, senders int) *refModel {
	return &refModel{c: c, prop: c.Prop, shadow: map[string]nsState{}, pending: map[timerKey]bool{}, processed: map[string]int{}, order: map[string][]string{},
		views: map[string]*opView{}, cutWM: map[uint64][]int64{}, bases: map[string]uint64{}, senders: senders, latency: int(c.Cfg("hlat", 1))}
}

func (m *refModel) view(op string) *opView {
	v := m.views[op]
	if v == nil {
		v = &opView{wmInvoked: map[int]int64{}, wmDone: map[int]int64{}, lastFired: -1 << 62, barInvoked: map[uint64]int{}, base: m.bases[op]}
		m.views[op] = v
	}
	return v
}

// resetView is called when an operator is (re)deployed: its watermark state starts over.
func (m *refModel) resetView(op string) {
	m.mu.Lock()
	delete(m.views, op)
	m.mu.Unlock()
}

// barInvoke: a sender is about to deliver barrier id to the operator.
func (m *refModel) barInvoke(op string, id uint64) {
	m.mu.Lock()
	m.view(op).barInvoked[id]++
	m.mu.Unlock()
}

// setBase: the operator is being deployed from checkpoint id (0 = fresh).
func (m *refModel) setBase(op string, id uint64) {
	m.mu.Lock()
	m.bases[op] = id
	m.mu.Unlock()
}

func (m *refModel) wmInvoke(op string, sender int, sec int64) {
	m.mu.Lock()
	m.view(op).wmInvoked[sender] = sec
	m.mu.Unlock()
}
func (m *refModel) wmReturned(op string, sender int, sec int64) {
	m.mu.Lock()
	m.view(op).wmDone[sender] = sec
	m.mu.Unlock()
}

// possibleComposites: the operator's effective watermark is the minimum over
// senders of each sender's latest *processed* watermark (epoch if none); a
// watermark whose HandleEvent call is in flight may or may not be processed.
func (v *opView) possibleComposites(senders int) map[int64]bool {
	out := map[int64]bool{}
	var rec func(s int, cur int64)
	rec = func(s int, cur int64) {
		if s == senders {
			out[cur] = true
			return
		}
		done := v.wmDone[s]
		rec(s+1, min(cur, done))
		if inv, ok := v.wmInvoked[s]; ok && inv != done {
			rec(s+1, min(cur, inv))
		}
	}
	rec(0, 1<<62)
	return out
}

func cloneState(s nsState) nsState {
	n := nsState{}
	for ns, es := range s {
		n[ns] = map[string]string{}
		for k, v := range es {
			n[ns][k] = v
		}
	}
	return n
}

func stateString(s nsState) string {
	var nss []string
	for ns := range s {
		if len(s[ns]) > 0 {
			nss = append(nss, ns)
		}
	}
	sort.Strings(nss)
	var sb strings.Builder
	for _, ns := range nss {
		var ks []string
		for k := range s[ns] {
			ks = append(ks, k)
		}
		sort.Strings(ks)
		fmt.Fprintf(&sb, "%q{", ns)
		for _, k := range ks {
			fmt.Fprintf(&sb, "%q=%q ", k, s[ns][k])
		}
		sb.WriteString("} ")
	}
	return sb.String()
}

// opHandler is the proto.Handler one operator is given.
type opHandler struct {
	m  *refModel
	op string
}

func (h *opHandler) KeyEventBatch(ctx context.Context, events [][]byte) ([][]*handlerpb.KeyedEvent, error) {
	panic("H-OP: the operator never keys events")
}

func (h *opHandler) ProcessEventBatch(ctx context.Context, req *handlerpb.ProcessEventBatchRequest) (*handlerpb.ProcessEventBatchResponse, error) {
	m := h.m
	for i := 0; i < m.latency; i++ {
		simrt.Yield("handler.ProcessEventBatch") // the call is in flight: the scheduler decides for how long
	}
	m.mu.Lock()
	defer m.mu.Unlock()
	c, prop := m.c, m.prop
	m.invocations++
	v := m.view(h.op)

	// --- C11(b): the watermark the handler is told
	told := req.Watermark.AsTime()
	toldSec := told.Unix()
	poss := v.possibleComposites(m.senders)
	if !poss[toldSec] || told.Nanosecond() != 0 {
		class := prop + "/handler-watermark"
		if len(v.wmDone) == 0 && len(v.wmInvoked) == 0 {
			class = prop + "/handler-watermark-before-first-report"
		}
		c.Violate(class, "operator %s told the handler watermark %s (unix %d); the minimum of its upstreams' latest watermarks can only be one of %v (unreported = epoch)", h.op, told.UTC().Format(time.RFC3339Nano), toldSec, keysInt(poss))
	}

	// --- C02, watermarks are part of the cut: until every sender has started to deliver
	// barrier N to this operator the checkpoint cannot have been taken, a sender behind its
	// barrier is held and one ahead of it has not passed it, so the operator's watermark
	// cannot exceed the minimum of the senders' last watermarks ahead of barrier N
	for id := v.base + 1; ; id++ {
		cut, ok := m.cutWM[id]
		if !ok {
			break
		}
		if v.barInvoked[id] >= m.senders {
			continue
		}
		lim := int64(1 << 62)
		for _, x := range cut {
			lim = min(lim, x)
		}
		if toldSec > lim {
			c.Violate(prop+"/watermark-beyond-cut", "operator %s told the handler watermark %d while only %d of %d senders have started to deliver barrier %d; the senders' last watermarks ahead of that barrier are %v, so a watermark from behind a barrier was acted on before the checkpoint", h.op, toldSec, v.barInvoked[id], m.senders, id, cut)
		}
		break
	}

	// --- C03: supplied state == shadow, per key
	given := map[string]nsState{}
	// the operator builds KeyStates from a Go map: put them in key order so that
	// which mismatch is reported first does not depend on map iteration order
	keyStates := append([]*handlerpb.KeyState(nil), req.KeyStates...)
	sort.SliceStable(keyStates, func(i, j int) bool { return string(keyStates[i].Key) < string(keyStates[j].Key) })
	for _, ks := range keyStates {
		k := string(ks.Key)
		if _, dup := given[k]; dup {
			c.Violate(prop+"/state-duplicate-key", "operator %s supplied two KeyStates for key %q", h.op, k)
		}
		st := nsState{}
		for _, ns := range ks.StateEntryNamespaces {
			if _, dup := st[ns.Namespace]; dup {
				c.Violate(prop+"/state-duplicate-namespace", "key %q: namespace %q supplied twice", k, ns.Namespace)
			}
			es := map[string]string{}
			for _, e := range ns.Entries {
				if _, dup := es[string(e.Key)]; dup {
					c.Violate(prop+"/state-duplicate-entry", "key %q namespace %q: entry %q supplied twice", k, ns.Namespace, e.Key)
				}
				es[string(e.Key)] = string(e.Value)
			}
			st[ns.Namespace] = es
		}
		given[k] = st
		if got, want := stateString(st), stateString(m.shadow[k]); got != want {
			class := prop + "/state-mismatch"
			switch {
			case len(got) > len(want) && strings.Contains(got, strings.TrimSpace(want)):
				class = prop + "/state-resurrected-or-foreign"
			case len(got) < len(want):
				class = prop + "/state-lost"
			}
			c.Violate(class, "operator %s, key %q: handler was given %s but the mutations it returned so far amount to %s", h.op, k, got, want)
			debugDumpDisk(c, debugDisk)
		}
	}

	resp := &handlerpb.ProcessEventBatchResponse{}
	results := map[string]*handlerpb.KeyResult{}
	resultFor := func(key []byte) *handlerpb.KeyResult {
		r := results[string(key)]
		if r == nil {
			r = &handlerpb.KeyResult{Key: key}
			results[string(key)] = r
			resp.KeyResults = append(resp.KeyResults, r)
		}
		return r
	}
	for _, ev := range req.Events {
		switch e := ev.Event.(type) {
		case *handlerpb.Event_KeyedEvent:
			ke := e.KeyedEvent
			k := string(ke.Key)
			if _, ok := given[k]; !ok {
				c.Violate(prop+"/state-not-supplied", "operator %s delivered an event for key %q without its KeyState", h.op, k)
			}
			if m.owner != nil {
				if want := m.owner(ke.Key); want != h.op {
					c.Violate(prop+"/event-at-non-owner", "event for key %q processed by operator %s, its key group belongs to %s", k, h.op, want)
				}
			}
			var sc evScript
			if err := json.Unmarshal(ke.Value, &sc); err != nil {
				c.Violate(prop+"/event-corrupt", "event value does not decode: %v", err)
				continue
			}
			m.processed[sc.ID]++
			m.order[k] = append(m.order[k], sc.ID)
			if m.processed[sc.ID] > 1 {
				c.Violate(prop+"/event-duplicate", "event %s reached the handler %d times", sc.ID, m.processed[sc.ID])
			}
			st := m.shadow[k]
			if st == nil {
				st = nsState{}
				m.shadow[k] = st
			}
			r := resultFor(ke.Key)
			byNS := map[string]*handlerpb.StateMutationNamespace{}
			for _, mu := range sc.Muts {
				smn := byNS[mu.NS]
				if smn == nil {
					smn = &handlerpb.StateMutationNamespace{Namespace: mu.NS}
					byNS[mu.NS] = smn
					r.StateMutationNamespaces = append(r.StateMutationNamespaces, smn)
				}
				if mu.Del {
					smn.Mutations = append(smn.Mutations, &handlerpb.StateMutation{Mutation: &handlerpb.StateMutation_Delete{Delete: &handlerpb.DeleteMutation{Key: mu.K}}})
					delete(st[mu.NS], string(mu.K))
				} else {
					smn.Mutations = append(smn.Mutations, &handlerpb.StateMutation{Mutation: &handlerpb.StateMutation_Put{Put: &handlerpb.PutMutation{Key: mu.K, Value: mu.V}}})
					if st[mu.NS] == nil {
						st[mu.NS] = map[string]string{}
					}
					st[mu.NS][string(mu.K)] = string(mu.V)
				}
			}
			for _, t := range sc.Timers {
				r.NewTimers = append(r.NewTimers, timestamppb.New(time.Unix(t, 0)))
				// the operator registers it after this call, with the watermark it just told us
				if t > toldSec {
					m.pending[timerKey{k, t}] = true
				}
			}
			for i := 0; i < sc.Sink; i++ {
				resp.SinkRequests = append(resp.SinkRequests, &handlerpb.SinkRequest{Value: []byte(sc.ID)})
			}
		case *handlerpb.Event_TimerExpired:
			te := e.TimerExpired
			tk := timerKey{string(te.Key), te.Timestamp.AsTime().Unix()}
			if m.owner != nil {
				if want := m.owner(te.Key); want != h.op {
					c.Violate(prop+"/timer-at-non-owner", "timer (%q, %d) fired at operator %s, the key belongs to %s", tk.key, tk.t, h.op, want)
				}
			}
			switch {
			case !m.pending[tk]:
				c.Violate(prop+"/timer-duplicate-or-spurious", "operator %s fired timer (%q, %d) which is not pending (fired before, never set, or set at/below the watermark)", h.op, tk.key, tk.t)
			case tk.t > toldSec:
				c.Violate(prop+"/timer-early", "operator %s fired timer (%q, %d) while its watermark is %d", h.op, tk.key, tk.t, toldSec)
			case tk.t < v.lastFired:
				c.Violate(prop+"/timer-order", "operator %s fired timer (%q, %d) after one with timestamp %d", h.op, tk.key, tk.t, v.lastFired)
			}
			delete(m.pending, tk)
			v.lastFired = max(v.lastFired, tk.t)
			c.Probe("timer-expired")
			if _, ok := given[tk.key]; !ok {
				c.Violate(prop+"/state-not-supplied", "operator %s delivered a timer for key %q without its KeyState", h.op, tk.key)
			}
		}
	}
	return resp, nil
}

func keysInt(m map[int64]bool) []int64 {
	var ks []int64
	for k := range m {
		ks = append(ks, k)
	}
	sort.Slice(ks, func(i, j int) bool { return ks[i] < ks[j] })
	return ks
}

// ---------------------------------------------------------------------------
// independent decoding of what an operator persisted (key formats of the state
// and timer stores, as documented by their encoders)

type persisted struct {
	state  map[string]nsState
	timers map[timerKey]bool
	groups map[string]int // subject key -> key group it is stored under
}

func decodePersisted(entries map[string]string) (*persisted, error) {
	p := &persisted{state: map[string]nsState{}, timers: map[timerKey]bool{}, groups: map[string]int{}}
	for ks, v := range entries {
		k := []byte(ks)
		if len(k) < 3 {
			return nil, fmt.Errorf("persisted key %q too short", k)
		}
		group := int(binary.BigEndian.Uint16(k[0:2]))
		switch k[2] {
		case 0x00: // state: group(2) schema(1) len(4) subject nslen(1) ns entry
			r := bytes.NewReader(k[3:])
			var sl uint32
			if err := binary.Read(r, binary.BigEndian, &sl); err != nil || int(sl) > r.Len() {
				return nil, fmt.Errorf("state key %q: bad subject length", k)
			}
			subject := make([]byte, sl)
			r.Read(subject)
			nl, err := r.ReadByte()
			if err != nil || int(nl) > r.Len() {
				return nil, fmt.Errorf("state key %q: bad namespace length", k)
			}
			ns := make([]byte, nl)
			r.Read(ns)
			entry := make([]byte, r.Len())
			r.Read(entry)
			st := p.state[string(subject)]
			if st == nil {
				st = nsState{}
				p.state[string(subject)] = st
			}
			if st[string(ns)] == nil {
				st[string(ns)] = map[string]string{}
			}
			st[string(ns)][string(entry)] = v
			p.groups[string(subject)] = group
		case 0x01: // timer: group(2) schema(1) unix-nanos(8) subject
			if len(k) < 11 {
				return nil, fmt.Errorf("timer key %q too short", k)
			}
			t := time.Unix(0, int64(binary.BigEndian.Uint64(k[3:11])))
			subject := string(k[11:])
			p.timers[timerKey{subject, t.Unix()}] = true
			p.groups[subject] = group
		default:
			return nil, fmt.Errorf("persisted key %q has unknown schema byte %#x", k, k[2])
		}
	}
	return p, nil
}
