package h

import (
	"bytes"
	"encoding/hex"
	"encoding/json"
	"errors"
	"fmt"
	"math/rand/v2"
	"os"
	"regexp"
	"runtime"
	"sort"
	"strings"
	"sync/atomic"

	"reduction.dev/reduction/dkv"
	"reduction.dev/reduction/dkv/kv"
	"reduction.dev/reduction/dkv/recovery"
	"reduction.dev/reduction/dkv/sst"
	"reduction.dev/reduction/dkv/ziptree"
	simrt "reduction.dev/reduction/verifsimrt"
	"verif/sim"
	"verif/simcore"
)

// H-DKV: the real dkv.DB (memtable, zip tree, WAL, SST writer/reader, level
// list, compactor, recovery, background queues) on the simulated disk, driven
// by one foreground client task (the DB's single-writer contract) while the
// DB's own flush / compaction / checkpoint-save goroutines are interleaved by
// the seeded scheduler. Oracle: a sequential map, compared on every read;
// model snapshots for checkpoints.

var dkvKeys = []string{"", "a", "ab", "abc", "abd", "b", "ba", "a\x00", "a\xff", "\xff", "\x00", "c", "cc", "k1", "k2", "k10"}

var HDKV = &sim.Harness{
	Name: "H-DKV",
	Gen:  genDKV,
	Body: bodyDKV,
	Real: []string{"dkv.DB", "dkv/memtable", "dkv/ziptree", "dkv/wal", "dkv/sst (writer, table, level list, compactor)", "dkv/recovery", "dkv/bg", "dkv/mergesort", "dkv/fields", "dkv/bloom", "dkv/storage.Cursor", "util/ds", "util/sliceu"},
	Stub: []string{"storage.FileSystem (SimDisk instead of LocalFilesystem/S3FileSystem: publish-on-Save atomicity, fd-like reads)", "kv.DataOwnership (AllDataOwnership or harness wrapper)"},
}

func genDKV(r *rand.Rand, prop, tier string) simcore.Case {
	cs := simcore.Case{Cfg: map[string]int64{}}
	sim.DrawPolicy(r, &cs)
	pick := func(v ...int64) int64 { return v[r.IntN(len(v))] }
	cs.Cfg["mem"] = pick(48, 96, 200, 400, 1000, 4096)
	cs.Cfg["wal"] = pick(64, 200, 1000, 4096, 1<<20)
	cs.Cfg["target"] = pick(64, 128, 300, 1000, 8192)
	cs.Cfg["l0"] = pick(1, 2, 2, 3, 4)
	cs.Cfg["amp"] = pick(1, 25, 50, 100, 200)
	cs.Cfg["small"] = pick(64, 256, 1024, 4096)
	cs.Cfg["mult"] = pick(2, 4, 10)
	cs.Cfg["rank"] = pick(0, 0, 1, 2)
	cs.Cfg["rankseed"] = int64(r.Uint32())
	if (prop == "C07" || prop == "C08" || prop == "C09") && r.IntN(5) == 0 {
		// a separate configuration: storage writes fail now and then (1 in N saves)
		cs.Cfg["ioerr"] = pick(8, 20, 50)
	}
	nkeys := 3 + r.IntN(len(dkvKeys)-2)
	cs.Cfg["nkeys"] = int64(nkeys)
	nops := 20 + r.IntN(120)
	if tier == "thorough" {
		nops = 20 + r.IntN(380)
	}
	// workload mix (swarm): weights per kind
	wPut, wDel, wGet, wScan := 3+r.IntN(6), r.IntN(4), 1+r.IntN(4), r.IntN(3)
	wCkpt, wVerify, wSwitch, wRetain, wGC := 0, 0, 0, 0, 0
	switch prop {
	case "C08":
		wCkpt, wVerify, wSwitch, wRetain = 1+r.IntN(2), 1+r.IntN(2), r.IntN(2), r.IntN(2)
	case "C09":
		wCkpt, wVerify, wSwitch, wRetain, wGC = 1+r.IntN(2), 1, r.IntN(2), 1+r.IntN(2), 1+r.IntN(3)
	case "C18":
		wScan++
	}
	total := wPut + wDel + wGet + wScan + wCkpt + wVerify + wSwitch + wRetain + wGC
	nextCkpt := int64(1)
	for i := 0; i < nops; i++ {
		x := r.IntN(total)
		k := int64(r.IntN(nkeys))
		switch {
		case x < wPut:
			cs.Ops = append(cs.Ops, simcore.Op{K: "put", A: []int64{k, int64(r.IntN(40))}})
		case x < wPut+wDel:
			cs.Ops = append(cs.Ops, simcore.Op{K: "del", A: []int64{k}})
		case x < wPut+wDel+wGet:
			cs.Ops = append(cs.Ops, simcore.Op{K: "get", A: []int64{k}})
		case x < wPut+wDel+wGet+wScan:
			cs.Ops = append(cs.Ops, simcore.Op{K: "scan", A: []int64{k}})
		case x < wPut+wDel+wGet+wScan+wCkpt:
			cs.Ops = append(cs.Ops, simcore.Op{K: "ckpt", A: []int64{nextCkpt}})
			nextCkpt++
		case x < wPut+wDel+wGet+wScan+wCkpt+wVerify:
			cs.Ops = append(cs.Ops, simcore.Op{K: "verify", A: []int64{int64(r.IntN(8))}})
		case x < wPut+wDel+wGet+wScan+wCkpt+wVerify+wSwitch:
			cs.Ops = append(cs.Ops, simcore.Op{K: "switch", A: []int64{int64(r.IntN(8)), int64(r.IntN(2))}})
		case x < wPut+wDel+wGet+wScan+wCkpt+wVerify+wSwitch+wRetain:
			cs.Ops = append(cs.Ops, simcore.Op{K: "retain", A: []int64{int64(r.IntN(3))}})
		default:
			cs.Ops = append(cs.Ops, simcore.Op{K: "gc"})
		}
	}
	if prop == "C18" && r.IntN(2) == 0 {
		genCompactDirect(r, &cs, tier)
	}
	return cs
}

type ckptRec struct {
	id     uint64
	handle recovery.CheckpointHandle
	snap   map[string]string
	db     int               // instance that took it
	files  map[string]string // referenced file URI -> content fingerprint at checkpoint time
}

// ckptDoc mirrors the on-disk checkpoints document, parsed independently of
// the repository's recovery package.
type ckptDoc struct {
	Checkpoints []struct {
		ID   uint64 `json:"id"`
		WALs []struct {
			URI string `json:"uri"`
		} `json:"wals"`
		Levels [][]struct{ URI string } `json:"levels"`
	} `json:"checkpoints"`
}

func fingerprint(b []byte) string {
	h := uint64(14695981039346656037)
	for _, c := range b {
		h ^= uint64(c)
		h *= 1099511628211
	}
	return fmt.Sprintf("%d:%x", len(b), h)
}

// referencedFiles lists the files checkpoint id references according to the
// checkpoints document currently stored at uri.
func (r *dkvRun) referencedFiles(uri string, id uint64) (files []string, found bool, err error) {
	raw, ok := r.disk.ReadRaw(uri)
	if !ok {
		return nil, false, fmt.Errorf("checkpoints document %s does not exist (deleted by %q)", uri, r.disk.WhoDeleted(uri))
	}
	var doc ckptDoc
	if err := json.Unmarshal(raw, &doc); err != nil {
		return nil, false, fmt.Errorf("checkpoints document %s unparsable: %v", uri, err)
	}
	for _, cp := range doc.Checkpoints {
		if cp.ID != id {
			continue
		}
		for _, w := range cp.WALs {
			files = append(files, w.URI)
		}
		for _, l := range cp.Levels {
			for _, t := range l {
				files = append(files, t.URI)
			}
		}
		return files, true, nil
	}
	return nil, false, nil
}

// precheckRestore verifies, before handing the checkpoint to the DB, that it is
// still listed and that every file it references exists with the content it
// had when the checkpoint completed (a DB fed a replaced table file can die in
// an unrecoverable way, e.g. a multi-gigabyte allocation from a garbage footer).
func (r *dkvRun) precheckRestore(ck *ckptRec, opIdx int) bool {
	c := r.c
	files, found, err := r.referencedFiles(ck.handle.URI, ck.id)
	if err != nil {
		c.Violate(c.Prop+"/restore-file-missing", "op %d retained checkpoint %d: %v", opIdx, ck.id, err)
		return false
	}
	if !found {
		c.Violate(c.Prop+"/checkpoint-not-listed", "op %d retained checkpoint %d is no longer listed in %s", opIdx, ck.id, ck.handle.URI)
		return false
	}
	for _, f := range files {
		b, ok := r.disk.ReadRaw(f)
		if !ok {
			c.Violate(c.Prop+"/restore-file-missing", "op %d retained checkpoint %d references %s which no longer exists (deleted by %q)", opIdx, ck.id, f, r.disk.WhoDeleted(f))
			return false
		}
		if want, had := ck.files[f]; had && want != fingerprint(b) {
			c.Violate(c.Prop+"/restore-file-overwritten", "op %d retained checkpoint %d references %s whose content was replaced after the checkpoint (was %s now %s, last written by %q)", opIdx, ck.id, f, want, fingerprint(b), r.disk.WhoWrote(f))
			return false
		}
	}
	return true
}

type dkvInst struct {
	db     *dkv.DB
	node   string
	dir    string
	model  map[string]string
	ckpts  []*ckptRec // retained checkpoints of this instance, oldest first
	nextID uint64
}

type dkvRun struct {
	c     *sim.Ctx
	disk  *sim.Disk
	insts []*dkvInst
	cur   *dkvInst
	opIdx int
	tuned dkv.DBOptions
}

var dbgDisk *sim.Disk

var tableCountRe = regexp.MustCompile(`level (\d+), tables (\d+)`)
var memCountRe = regexp.MustCompile(`MemTables \(num: (\d+)\)`)

func (r *dkvRun) abstractState(db *dkv.DB) string {
	d := db.Diagnostics()
	var sb strings.Builder
	if m := memCountRe.FindStringSubmatch(d); m != nil {
		sb.WriteString("m" + m[1])
	}
	for _, m := range tableCountRe.FindAllStringSubmatch(d, -1) {
		sb.WriteString("," + m[2])
	}
	return sb.String()
}

func installDKVHooks(c *sim.Ctx) {
	dkv.VerifResetQueues()
	amp, small, mult := int(c.Cfg("amp", 50)), c.Cfg("small", 256), int(c.Cfg("mult", 10))
	dkv.VerifTuneCompactor = func(cp *sst.Compactor) {
		cp.MaxSizeAmplificationPercent = amp
		cp.SmallestLevelSize = small
		cp.LevelSizeMultiplier = mult
	}
	mode := c.Cfg("rank", 0)
	rr := rand.New(rand.NewPCG(uint64(c.Cfg("rankseed", 1)), 7))
	var ctr atomic.Uint32
	ziptree.VerifRank = func() uint32 {
		switch mode {
		case 1:
			return 7 // all equal: tie-breaking paths
		case 2:
			return ctr.Add(1) // monotone: degenerate shape
		}
		return rr.Uint32()
	}
}

func (r *dkvRun) options(fs *sim.FS) dkv.DBOptions {
	c := r.c
	return dkv.DBOptions{
		FileSystem:                  fs,
		MemTableSize:                uint64(c.Cfg("mem", 200)),
		TargetFileSize:              uint64(c.Cfg("target", 300)),
		MaxWALSize:                  uint64(c.Cfg("wal", 1000)),
		L0TableNumCompactionTrigger: int(c.Cfg("l0", 2)),
	}
}

// sharedOwnership is the DataOwnership of a DB instance that only inspects a
// checkpoint (the harness's restore verifier): it never claims exclusive
// ownership of a table, so its garbage never deletes files.
type sharedOwnership struct{ kv.AllDataOwnership }

func (*sharedOwnership) ExclusivelyOwnsTable(string, []byte, []byte) (bool, error) { return false, nil }

func (r *dkvRun) open(handles []recovery.CheckpointHandle, sameDirAs *dkvInst, verifier ...bool) (inst *dkvInst, err error) {
	n := len(r.insts)
	inst = &dkvInst{node: fmt.Sprintf("db%d", n), dir: fmt.Sprintf("/store/db%d", n), model: map[string]string{}}
	if sameDirAs != nil {
		inst.dir = sameDirAs.dir
	}
	defer func() {
		if p := recover(); p != nil {
			err = fmt.Errorf("open panicked: %v", p)
		}
	}()
	opts := r.options(r.disk.FS(inst.node, inst.dir))
	if len(verifier) > 0 && verifier[0] {
		opts.DataOwnership = &sharedOwnership{}
	}
	simrt.SetGroup(inst.node)
	inst.db = dkv.Open(opts, handles)
	r.insts = append(r.insts, inst)
	return inst, nil
}

func key(i int64) []byte { return []byte(dkvKeys[int(i)%len(dkvKeys)]) }

func readAll(db *dkv.DB, prefix []byte) (map[string]string, []string, error) {
	var serr error
	got := map[string]string{}
	var order []string
	for e := range db.ScanPrefix(prefix, &serr) {
		if e.IsDelete() {
			return nil, nil, fmt.Errorf("scan yielded a tombstone for key %q", e.Key())
		}
		got[string(e.Key())] = string(e.Value())
		order = append(order, string(e.Key()))
	}
	return got, order, serr
}

// checkAgainst compares a DB with a model completely (scan + point reads).
func (r *dkvRun) checkAgainst(db *dkv.DB, model map[string]string, class, what string) bool {
	got, order, err := readAll(db, nil)
	if err != nil {
		r.c.Violate(class+"-error", "%s: full scan failed: %v", what, err)
		return false
	}
	if !sort.StringsAreSorted(order) {
		r.c.Violate(class+"-order", "%s: scan not ascending: %q", what, order)
		return false
	}
	for i := 1; i < len(order); i++ {
		if order[i] == order[i-1] {
			r.c.Violate(class+"-dup", "%s: key %q returned twice", what, order[i])
			return false
		}
	}
	for _, k := range sortedKeys(model) {
		v := model[k]
		if g, ok := got[k]; !ok {
			r.c.Violate(class+"-missing", "%s: scan misses live key %q (want %q)", what, k, v)
			return false
		} else if g != v {
			r.c.Violate(class+"-stale", "%s: scan key %q = %q want %q", what, k, g, v)
			return false
		}
	}
	for _, k := range sortedKeys(got) {
		g := got[k]
		if _, ok := model[k]; !ok {
			r.c.Violate(class+"-resurrect", "%s: scan returns key %q = %q which is deleted/absent", what, k, g)
			return false
		}
	}
	for i := range dkvKeys {
		k := dkvKeys[i]
		e, err := db.Get([]byte(k))
		want, has := model[k]
		switch {
		case err != nil && !errors.Is(err, kv.ErrNotFound):
			r.c.Violate(class+"-error", "%s: Get(%q) failed: %v", what, k, err)
			return false
		case err != nil || e.IsDelete():
			if has {
				r.c.Violate(class+"-missing", "%s: Get(%q) absent/deleted, want %q", what, k, want)
				return false
			}
		default:
			if !has {
				r.c.Violate(class+"-resurrect", "%s: Get(%q) = %q but key is deleted/absent", what, k, e.Value())
				return false
			} else if string(e.Value()) != want {
				r.c.Violate(class+"-stale", "%s: Get(%q) = %q want %q", what, k, e.Value(), want)
				return false
			}
		}
	}
	return true
}

func sortedKeys(m map[string]string) []string {
	ks := make([]string, 0, len(m))
	for k := range m {
		ks = append(ks, k)
	}
	sort.Strings(ks)
	return ks
}

func copyModel(m map[string]string) map[string]string {
	n := make(map[string]string, len(m))
	for k, v := range m {
		n[k] = v
	}
	return n
}

// gcStep forces garbage collection, lets the runtime's cleanup goroutine run,
// and applies the file deletions the cleanups requested at this (recorded)
// point of the schedule.
func gcStep(disk *sim.Disk) int {
	var flag atomic.Bool
	func() {
		sentinel := new([64]byte)
		runtime.AddCleanup(sentinel, func(f *atomic.Bool) { f.Store(true) }, &flag)
	}()
	for round := 0; round < 2; round++ {
		runtime.GC()
		for i := 0; i < 2000 && !flag.Load(); i++ {
			runtime.Gosched()
		}
		for i := 0; i < 50; i++ {
			runtime.Gosched()
		}
	}
	return disk.ApplyPendingDeletes()
}

func bodyDKV(c *sim.Ctx) {
	if c.Cfg("direct", 0) == 1 {
		bodyCompactDirect(c)
		return
	}
	prop := c.Prop
	if os.Getenv("VERIF_DEBUG") != "" {
		defer func() {
			if !c.Violated() {
				return
			}
			// debugging aid only
			for _, p := range dbgDisk.Paths() {
				b, _ := dbgDisk.ReadRaw(p)
				if strings.HasSuffix(p, ".sst") && len(b) > 4120 {
					b = b[:len(b)-4120]
				}
				fmt.Fprintf(os.Stderr, "FILE %s (%d bytes)\n%s\n", p, len(b), hex.Dump(b[:min(len(b), 400)]))
			}
		}()
	}
	installDKVHooks(c)
	r := &dkvRun{c: c, disk: sim.NewDisk(c)}
	dbgDisk = r.disk
	ioerr := int(c.Cfg("ioerr", 0))
	r.disk.FaultRate["save-error"] = ioerr
	// under injected write errors an operation may fail and a background task may report
	// the error; what is returned or restored must still never be wrong
	injected := func(err error) bool { return ioerr > 0 && err != nil && strings.Contains(err.Error(), "injected") }
	inst, err := r.open(nil, nil)
	if err != nil {
		c.Violate(prop+"/open-failed", "%v", err)
		return
	}
	r.cur = inst
	states := map[string]bool{}
	for i, op := range c.Case.Ops {
		if c.Violated() {
			return
		}
		r.opIdx = i
		simrt.Yield("op:" + op.K)
		cur := r.cur
		simrt.SetGroup(cur.node) // goroutines the DB spawns during this call belong to its process
		switch op.K {
		case "put":
			k := key(op.Arg(0))
			v := fmt.Sprintf("v%d.%s", i, strings.Repeat("x", int(op.Arg(1))))
			cur.db.Put(k, []byte(v))
			cur.model[string(k)] = v
		case "del":
			k := key(op.Arg(0))
			cur.db.Delete(k)
			delete(cur.model, string(k))
		case "get":
			k := key(op.Arg(0))
			e, err := cur.db.Get(k)
			want, has := cur.model[string(k)]
			switch {
			case err != nil && !errors.Is(err, kv.ErrNotFound):
				c.Violate(prop+"/get-error", "op %d Get(%q): %v", i, k, err)
			case err != nil || e.IsDelete():
				if has {
					c.Violate(prop+"/get-missing", "op %d Get(%q) absent/deleted, want %q", i, k, want)
				}
			case !has:
				c.Violate(prop+"/get-resurrect", "op %d Get(%q) = %q but key is deleted/absent", i, k, e.Value())
			case string(e.Value()) != want:
				c.Violate(prop+"/get-stale", "op %d Get(%q) = %q want %q", i, k, e.Value(), want)
			}
		case "scan":
			pfx := key(op.Arg(0))
			got, order, err := readAll(cur.db, pfx)
			if err != nil {
				c.Violate(prop+"/scan-error", "op %d ScanPrefix(%q): %v", i, pfx, err)
				if os.Getenv("VERIF_DEBUG") != "" {
					for _, p := range r.disk.Paths() {
						b, _ := r.disk.ReadRaw(p)
						fmt.Fprintf(os.Stderr, "FILE %s (%d bytes)\n%s\n", p, len(b), hex.Dump(b))
					}
				}
				break
			}
			var want []string
			for k := range cur.model {
				if bytes.HasPrefix([]byte(k), pfx) {
					want = append(want, k)
				}
			}
			sort.Strings(want)
			if fmt.Sprintf("%q", order) != fmt.Sprintf("%q", want) {
				class := "/scan-keys"
				if len(order) > len(want) {
					class = "/scan-resurrect-or-dup"
				} else if len(order) < len(want) {
					class = "/scan-missing"
				}
				c.Violate(prop+class, "op %d ScanPrefix(%q) keys %q want %q", i, pfx, order, want)
				break
			}
			for _, k := range want {
				if got[k] != cur.model[k] {
					c.Violate(prop+"/scan-stale", "op %d ScanPrefix(%q) key %q = %q want %q", i, pfx, k, got[k], cur.model[k])
					break
				}
			}
		case "ckpt":
			cur.nextID++
			id := cur.nextID
			snap := copyModel(cur.model)
			wait := cur.db.Checkpoint(id)
			h, err := wait()
			if injected(err) {
				c.Probe("checkpoint-failed-by-injected-error") // not completed: never restored from
				break
			}
			if err != nil {
				c.Violate(prop+"/checkpoint-error", "op %d Checkpoint(%d): %v", i, id, err)
				break
			}
			rec := &ckptRec{id: id, handle: h, snap: snap, files: map[string]string{}}
			files, found, ferr := r.referencedFiles(h.URI, id)
			if ferr != nil || !found {
				c.Violate(prop+"/checkpoint-not-listed", "op %d completed checkpoint %d is not in its own document %s (%v)", i, id, h.URI, ferr)
				break
			}
			for _, f := range files {
				if b, ok := r.disk.ReadRaw(f); ok {
					rec.files[f] = fingerprint(b)
				} else {
					c.Violate(prop+"/restore-file-missing", "op %d completed checkpoint %d references %s which does not exist (deleted by %q)", i, id, f, r.disk.WhoDeleted(f))
				}
			}
			cur.ckpts = append(cur.ckpts, rec)
			c.Probe("checkpoint")
		case "verify":
			if len(cur.ckpts) == 0 {
				break
			}
			ck := cur.ckpts[int(op.Arg(0))%len(cur.ckpts)]
			r.verifyRestore(ck, i)
		case "switch":
			if len(cur.ckpts) == 0 {
				break
			}
			ck := cur.ckpts[int(op.Arg(0))%len(cur.ckpts)]
			// crash: the current instance is abandoned at whatever its background
			// tasks are doing; only published files survive
			if !r.precheckRestore(ck, i) {
				break
			}
			var same *dkvInst
			if op.Arg(1) == 1 {
				// redeploy in the same process (an operator that survives a job
				// restart): same directory, the old DB object becomes garbage
				same = cur
				c.Probe("redeploy-same-process")
				// what Operator.HandleDeploy does with its previous database
				if err := cur.db.Close(); err != nil && !injected(err) {
					c.Violate(prop+"/background-task-error", "op %d Close before redeploy: %v", i, err)
					break
				}
			} else {
				c.S.KillGroup(cur.node)
				r.disk.Kill(cur.node)
				c.Fault("crash")
				// a new process has fresh package-level queues (the crashed one may
				// be parked for ever inside a task that holds the queue's lock)
				dkv.VerifResetQueues()
			}
			ni, err := r.open([]recovery.CheckpointHandle{ck.handle}, same)
			if err != nil {
				c.Violate(prop+"/restore-failed", "op %d restore of checkpoint %d after crash: %v (deleted by: %s)", i, ck.id, err, r.missingInfo())
				break
			}
			ni.model = copyModel(ck.snap)
			ni.nextID = cur.nextID
			// the new instance only knows the checkpoint it was restored from
			ni.ckpts = []*ckptRec{ck}
			r.cur = ni
			if !r.checkAgainst(ni.db, ni.model, prop+"/restore", fmt.Sprintf("op %d restored checkpoint %d", i, ck.id)) {
				break
			}
			c.Probe("switch")
		case "retain":
			if len(cur.ckpts) == 0 {
				break
			}
			// keep the newest k+1 checkpoints
			keep := int(op.Arg(0)) + 1
			if keep > len(cur.ckpts) {
				keep = len(cur.ckpts)
			}
			kept := cur.ckpts[len(cur.ckpts)-keep:]
			ids := make([]uint64, len(kept))
			for j, ck := range kept {
				ids[j] = ck.id
			}
			if err := cur.db.UpdateRetainedCheckpoints(ids); err != nil && !injected(err) {
				c.Violate(prop+"/retain-error", "op %d UpdateRetainedCheckpoints(%v): %v", i, ids, err)
				break
			}
			cur.ckpts = append([]*ckptRec(nil), kept...)
			c.Probe("retain")
		case "gc":
			n := gcStep(r.disk)
			c.ProbeN("gc-deleted-files", n)
			c.Probe("gc")
		}
		c.OpDone()
		if i%8 == 0 {
			states[r.abstractState(r.cur.db)] = true
		}
	}
	if c.Violated() {
		return
	}
	// quiesce and check everything once more
	simrt.SetGroup(r.cur.node)
	r.disk.FaultRate["save-error"] = 0 // faults stop: the final checks run on a healthy disk
	if err := r.cur.db.WaitOnTasks(); err != nil && !injected(err) {
		c.Violate(prop+"/background-task-error", "WaitOnTasks: %v", err)
		return
	}
	states[r.abstractState(r.cur.db)] = true
	if prop == "C09" {
		gcStep(r.disk)
	}
	if !r.checkAgainst(r.cur.db, r.cur.model, prop+"/final", "after quiescence") {
		return
	}
	if prop == "C08" || prop == "C09" {
		for _, ck := range r.cur.ckpts {
			if !r.verifyRestore(ck, len(c.Case.Ops)) {
				return
			}
		}
	}
	_ = 0
	var ss []string
	for s := range states {
		ss = append(ss, s)
	}
	sort.Strings(ss)
	c.SetState(strings.Join(ss, "|"))
}

func (r *dkvRun) missingInfo() string {
	if len(r.disk.MissingReads) == 0 {
		return "n/a"
	}
	p := r.disk.MissingReads[len(r.disk.MissingReads)-1]
	return fmt.Sprintf("%s deleted by %q", p, r.disk.WhoDeleted(p))
}

// verifyRestore opens a fresh DB from a retained checkpoint and requires
// exactly the snapshot taken at the Checkpoint call.
func (r *dkvRun) verifyRestore(ck *ckptRec, opIdx int) bool {
	c := r.c
	if !r.precheckRestore(ck, opIdx) {
		return false
	}
	rate := r.disk.FaultRate["save-error"]
	r.disk.FaultRate["save-error"] = 0 // the oracle's own instance reads and writes on a healthy disk
	defer func() { r.disk.FaultRate["save-error"] = rate }()
	ni, err := r.open([]recovery.CheckpointHandle{ck.handle}, nil, true)
	if err != nil {
		class := c.Prop + "/restore-failed"
		if strings.Contains(err.Error(), "NotFound") || strings.Contains(err.Error(), "not found") || strings.Contains(err.Error(), "no file") {
			class = c.Prop + "/restore-file-missing"
		}
		c.Violate(class, "op %d restore of retained checkpoint %d: %v (last missing: %s)", opIdx, ck.id, err, r.missingInfo())
		return false
	}
	c.Probe("verify-restore")
	ok := r.checkAgainst(ni.db, ck.snap, c.Prop+"/restore", fmt.Sprintf("op %d restored checkpoint %d", opIdx, ck.id))
	// the verification instance is dropped again; let its own background work
	// (flushes triggered by WAL replay) finish first, because the flush queue is
	// package-level state it shares with the database under test
	if err := ni.db.WaitOnTasks(); err != nil && ok {
		c.Violate(c.Prop+"/background-task-error", "restored instance: WaitOnTasks: %v", err)
		return false
	}
	return ok
}
